"""C17 worker (Python-decided part): combinatorial CQM generators and random-model generators.

kinds
  knapsack       dimod.generators.random_knapsack / knapsack
  binpacking     dimod.generators.random_bin_packing / bin_packing
  multiknapsack  dimod.generators.random_multi_knapsack / multi_knapsack
  random         uniform, randint, gnp_random_bqm, gnm_random_bqm, ran_r, doped, power_r, frustrated_loop, chimera_anticluster

Coverage map of the "random-model generators" clause (draw only from the declared range, on the declared graph,
reproducible from the seed; "all seeds and parameter settings"):
  range of linear / quadratic biases AND of the offset      uniform, randint (low/high unset, degenerate low == high, negative),
                                                            gnp/gnm (default [0,1) or bias_generator), ran_r / power_r (+-1..r, no 0),
                                                            doped (+-1 by fm / p incl. p = 0, 1), chimera (+-1 / +-multiplier incl.
                                                            multiplier 0, negative), frustrated_loop (integers, |J| <= R)
  all seeds                                                 every case: its own seed (incl. 0) + SEED_SWEEP derived seeds
  declared graph                                            graph forms int / (nodes, edges) / (n, edges) / edge list / networkx, edges as
                                                            tuples or lists, empty graphs, isolated nodes, two-edge lists (known finding);
                                                            chimera: m, n, t incl. 0 and n / t omitted, subgraph= (rare keyword)
  reproducible, independent of numpy's global state         every case (same seed twice around np.random.seed, mutated first result)
  seed forms                                                int, RandomState (gnp/gnm), Generator (power_r)
  keyword options                                           cls= (deprecated), vartype as str / enum / set, fm, plant_solution,
                                                            planted_solution (deprecated), cycle_predicates, max_failed_cycles, R

The CQM kinds run the real generator, read the instance data back from the returned model, judge the
data against the docstring (ranges, capacity formula) and then compare -- for every assignment of
the binary variables when there are at most 12 of them, for structured random assignments otherwise
-- the model's own feasibility / objective with the documented condition evaluated in exact integer
arithmetic (all data are integers or small dyadics; they are scaled to integers by a common
denominator, so no tolerance is involved anywhere).

The random kind is monitored only: biases within the documented range / set, interactions exactly
on the declared graph, all declared nodes present, requested vartype, reproducible from the seed
and independent of numpy's global state, a fresh object per call.

Every violation carries a class name; features["what"] is the '+'-joined sorted set of classes of
the case, so that a case that only shows already known classes can be told from one with a new one.
"""
import itertools
import json
import math
import random as _pyrandom
import warnings
from fractions import Fraction

import numpy as np
import dimod
from dimod import generators as DG

import wlib
import gen
from gen import F, enc_label, dec_label

KINDS = ['knapsack', 'binpacking', 'multiknapsack', 'random']

# bin_packing([0], c): item 0 may sit in a *closed* bin (0 <= c*0), objective 0.  Weight 0 is outside
# the usual statement of bin packing, so such instances are not generated unless this is switched on
# (failure class: 'feasibility', the message names the closed bin).
ALLOW_ZERO_WEIGHTS = False
# a few fixed inputs that reach known corner cases quickly (see CORPUS below)
INCLUDE_CORPUS = False      # the fixed inputs live in corpus/C17/*.json
CORPUS_RATE = 0.02

ENUM_MAX_VARS = 12          # all 2^n assignments up to here
API_ALL_MAX = 256           # per-sample API (check_feasible/violations/energy) on all rows up to here
API_EXTRA = 100             # otherwise: all feasible rows (capped) + this many other rows
API_FEASIBLE_CAP = 150
SEED_SWEEP = 16            # further seeds per random-generator case (range / support clauses)
SAMPLED_ROWS = 60           # rows for models with more than ENUM_MAX_VARS variables

CORPUS = {
    # int(num_items*mean(weights)/5) == 22 although the weights sum to 115 (115/5 == 23)
    'binpacking': [{"kind": "binpacking", "mode": "random", "num_items": 7, "seed": 164,
                    "weight_range": None, "seed_form": "int"}],
    # a list of exactly two edges whose second edge joins labels that are themselves of length 2 is
    # taken by dimod.decorators.graph_argument for a (nodes, edges) pair
    'random': [{"kind": "random", "sub": "uniform", "seed": 5, "vartype": "SPIN", "vt_form": "str", "cls": False,
                "low": None, "high": None,
                "graph": {"form": "edges", "n": 4, "nodes": ["a", "b", "x0", {"t": ["t", 1]}],
                          "edges": [["a", "b"], ["x0", {"t": ["t", 1]}]], "edge_type": "tuple"}},
               {"kind": "random", "sub": "ran_r", "seed": 6, "r": 2, "cls": False,
                "graph": {"form": "edges", "n": 3, "nodes": ["ab", "cd", "ef"],
                          "edges": [["ab", "cd"], ["cd", "ef"]], "edge_type": "tuple"}}],
}


# ----------------------------------------------------------------------------------------------
# small helpers

def _seed(rng):
    # falsy / boundary seeds are seeds too: `seed=0` must be as reproducible as any other
    x = rng.random()
    if x < 0.15:
        return 0
    if x < 0.2:
        return rng.choice([1, 2 ** 31 - 1])
    return rng.randint(0, 2 ** 31 - 1)


def _fr(s):
    return Fraction(s)


def _num(x):
    """Fraction -> the python number handed to the generator"""
    x = Fraction(x)
    return int(x) if x.denominator == 1 else float(x)


def _lcm(xs):
    d = 1
    for x in xs:
        d = d * x.denominator // math.gcd(d, x.denominator)
    return d


def _is_pow2(d):
    return d > 0 and d & (d - 1) == 0


# Observations outside the literal statement of C17 (documented behaviour the property text does not
# quantify over).  They are recorded in features["notes"] and reported to the lead, but raise no alarm:
#  gnm_structure        gnm_random_bqm always selects the first m pairs (its selection-sampling loop runs
#                       over range(m) instead of all pairs) although random_state is documented to
#                       generate the structure
#  doped_isolated_nodes doped() drops declared nodes that have no edge (uniform/ran_r keep them)
#  capacity_float       random_bin_packing: int(n*mean(w)/5) is 22 for weights summing to 115
REPORT_ONLY = {'gnm_structure', 'doped_isolated_nodes', 'capacity_float', 'fcl_list_edges'}


# the CQM and the instance data of the last knapsack / bin packing / multi-knapsack case, for the Coq-side
# evaluation assembled in w_c17.py
LAST = {}


class Fails:
    def __init__(self):
        self.items = []
        self.notes = []

    def add(self, what, msg):
        if what in REPORT_ONLY:
            if what not in self.notes:
                self.notes.append(what)
            return
        if len(self.items) < 6:
            self.items.append((what, msg))

    def __bool__(self):
        return bool(self.items)

    def what(self):
        return "+".join(sorted({w for w, _ in self.items})) if self.items else None

    def text(self):
        return " || ".join(f"[{w}] {m}" for w, m in self.items) if self.items else None


def _ones(vs, row):
    return "{" + ", ".join(f"{v}=1" for v, b in zip(vs, row) if b) + "} (all other variables 0)"


def _sense(con):
    s = con.sense
    return str(s.value) if hasattr(s, 'value') else str(s)


def _expr(e):
    """exact reading of an expression: linear {label: Fraction}, offset, number of quadratic terms"""
    return {v: F(b) for v, b in e.linear.items()}, F(e.offset), len(e.quadratic)


# ----------------------------------------------------------------------------------------------
# case generation: CQM kinds

INT_RANGES = [None, None, [10, 30], [1, 5], [0, 3], [5, 6], [20, 100], [0, 1], [3, 12]]
POS_RANGES = [None, None, [10, 30], [1, 5], [1, 10], [2, 3], [5, 50], [1, 3], [3, 12]]
RATIOS = [None, None, "1/2", "1/4", "3/4", "1", "1/8", "0", "3/2", "5/8"]


def _nonneg_values(rng, n, kmax=9):
    if rng.random() < 0.8:
        return [str(rng.randint(0, kmax)) for _ in range(n)]
    return [str(abs(rng.dyadic(kmax, 2))) for _ in range(n)]


def _pos_values(rng, n, kmax=9):
    if rng.random() < 0.8:
        return [str(rng.randint(1, kmax)) for _ in range(n)]
    return [str(abs(rng.dyadic(kmax, 2)) + Fraction(1, 2)) for _ in range(n)]


def _gen_knapsack(rng, tier):
    big = rng.random() < (0.25 if tier == 'thorough' else 0.15)
    n = rng.randint(5, 16) if big else rng.randint(1, 4)
    if rng.random() < 0.7:
        return {"kind": "knapsack", "mode": "random", "num_items": n, "seed": _seed(rng),
                "value_range": rng.choice(INT_RANGES), "weight_range": rng.choice(INT_RANGES),
                "tightness_ratio": rng.choice(RATIOS)}
    weights = _nonneg_values(rng, n)
    tot = sum(map(Fraction, weights))
    cap = rng.choice([Fraction(rng.randint(0, int(tot) + 1)), tot / 2, tot, tot + 1, Fraction(0),
                      abs(rng.dyadic(12, 1))])
    return {"kind": "knapsack", "mode": "direct", "values": _nonneg_values(rng, n), "weights": weights,
            "capacity": str(cap)}


def _gen_binpacking(rng, tier):
    if INCLUDE_CORPUS and rng.random() < CORPUS_RATE:
        return json.loads(json.dumps(rng.choice(CORPUS['binpacking'])))
    big = rng.random() < (0.3 if tier == 'thorough' else 0.2)
    n = rng.randint(4, 12) if big else rng.randint(1, 3)
    if rng.random() < 0.45:
        wr = rng.choice(POS_RANGES)
        if ALLOW_ZERO_WEIGHTS and rng.random() < 0.2:
            wr = [0, 3]
        return {"kind": "binpacking", "mode": "random", "num_items": n, "seed": _seed(rng),
                "weight_range": wr, "seed_form": rng.choice(["int", "int", "generator"])}
    weights = _pos_values(rng, n)
    if ALLOW_ZERO_WEIGHTS and rng.random() < 0.2:
        weights[rng.randint(0, n - 1)] = "0"
    w = list(map(Fraction, weights))
    tot = sum(w)
    cap = rng.choice([max(w), max(w), tot, tot / 2, Fraction(rng.randint(0, int(tot) + 1)), max(w) + min(w),
                      min(w), Fraction(0)])
    return {"kind": "binpacking", "mode": "direct", "weights": weights, "capacity": str(cap)}


def _mk_ranges_ok(wr, n, b):
    lo, hi = wr if wr is not None else (10, 50)
    return int(lo * n / b) < int(hi * n / b)


def _gen_multiknapsack(rng, tier):
    big = rng.random() < (0.25 if tier == 'thorough' else 0.15)
    if big:
        n, b = rng.randint(4, 8), rng.randint(2, 4)
    else:
        n, b = rng.randint(1, 3), rng.randint(1, 2)
        if rng.random() < 0.15:
            n, b = rng.choice([(4, 3), (3, 3), (3, 4), (6, 2), (2, 5), (1, 6)])
    if rng.random() < 0.6:
        wr = rng.choice(INT_RANGES)
        if not _mk_ranges_ok(wr, n, b):
            wr = None
        c = {"kind": "multiknapsack", "mode": "random", "num_items": n, "num_bins": b,
             "value_range": rng.choice(INT_RANGES), "weight_range": wr}
        c["seed"] = None if rng.random() < 0.1 else _seed(rng)      # None: use the documented default (32)
        return c
    weights = _nonneg_values(rng, n)
    tot = sum(map(Fraction, weights))
    caps = [str(rng.choice([Fraction(rng.randint(0, int(tot) + 1)), tot / 2, tot, Fraction(0),
                            abs(rng.dyadic(12, 1))])) for _ in range(b)]
    return {"kind": "multiknapsack", "mode": "direct", "values": _nonneg_values(rng, n),
            "weights": weights, "capacities": caps}


# ----------------------------------------------------------------------------------------------
# case generation: random-model generators

SUBS = ['uniform', 'randint', 'gnp', 'gnm', 'ran_r', 'doped', 'power_r', 'fcl', 'chimera']
FORMS = ['int', 'pair', 'pair_int', 'edges', 'nx']


def _gen_graph(rng, nmax=6):
    form = rng.choice(FORMS)
    n = rng.randint(0, nmax)
    if form == 'int':
        return {"form": "int", "n": n}
    nodes = list(range(n)) if form == 'pair_int' else gen.rand_labels(rng, n)
    if form == 'edges' and rng.random() < 0.2:
        # an edge list of exactly two edges over labels that are themselves 2-sequences looks like a
        # (nodes, edges) pair; graph_argument has to tell them apart
        nodes = rng.sample(['ab', 'cd', 'ef', 'x0', ('t', 1), ('t', 2), ('u', 'v'), 'gh'], rng.choice([3, 4]))
        e1 = [nodes[0], nodes[1]]
        e2 = [nodes[1], nodes[2]] if len(nodes) == 3 else [nodes[2], nodes[3]]
        for e in (e1, e2):
            if rng.random() < 0.5:
                e.reverse()
        return {"form": form, "n": len(nodes), "nodes": [enc_label(x) for x in nodes],
                "edges": [[enc_label(u), enc_label(v)] for u, v in (e1, e2)], "edge_type": rng.choice(["tuple", "list"])}
    dens = rng.choice([0.0, 0.3, 0.6, 1.0])
    edges = []
    for i, j in itertools.combinations(range(n), 2):
        if rng.random() < dens:
            u, v = (nodes[i], nodes[j]) if rng.random() < 0.5 else (nodes[j], nodes[i])
            edges.append([enc_label(u), enc_label(v)])
    rng.shuffle(edges)
    g = {"form": form, "n": n, "nodes": [enc_label(x) for x in nodes], "edges": edges}
    if form in ('edges', 'pair', 'pair_int'):
        g["edge_type"] = rng.choice(["tuple", "list"])
    return g


def _gen_random(rng, tier):
    if INCLUDE_CORPUS and rng.random() < CORPUS_RATE:
        return json.loads(json.dumps(rng.choice(CORPUS['random'])))
    sub = rng.choice(SUBS)
    c = {"kind": "random", "sub": sub, "seed": _seed(rng)}
    vt = {"vartype": rng.choice(['SPIN', 'BINARY']), "vt_form": rng.choice(['str', 'enum', 'set'])}
    if sub in ('uniform', 'randint'):
        c.update(vt)
        c["graph"] = _gen_graph(rng)
        c["cls"] = rng.random() < 0.15
        if rng.random() < 0.25:
            c["low"] = c["high"] = None          # documented defaults 0, 1
        elif sub == 'uniform':
            lo = rng.dyadic(8, 2)
            c["low"], c["high"] = str(lo), str(lo + rng.choice([Fraction(0), abs(rng.dyadic(8, 2)), Fraction(1, 4)]))
        else:
            lo = rng.randint(-5, 5)
            c["low"], c["high"] = lo, lo + rng.choice([0, 0, 1, 2, 3, 7])
    elif sub in ('gnp', 'gnm'):
        c.update(vt)
        n = rng.randint(0, 6)
        c["n"] = n
        c["labels"] = [enc_label(x) for x in gen.rand_labels(rng, n)] if rng.random() < 0.5 else None
        c["rs_form"] = rng.choice(["int", "int", "RandomState"])
        c["bias"] = None if rng.random() < 0.7 else [rng.randint(-4, 0), rng.randint(1, 4), _seed(rng)]
        if sub == 'gnp':
            c["p"] = rng.choice(["0", "1/4", "1/2", "3/4", "1"])
        else:
            c["m"] = rng.randint(0, n * (n - 1) // 2 + 2)
    elif sub == 'fcl':
        # frustrated_loop: needs cycles, so a dense graph on 3..6 nodes (or whatever _gen_graph gives: then it may
        # legitimately raise RuntimeError for lack of cycles)
        if rng.random() < 0.7:
            n = rng.randint(3, 6)
            form = rng.choice(['int', 'pair', 'edges', 'nx'])
            if form == 'int':
                c["graph"] = {"form": "int", "n": n}
            else:
                nodes = gen.rand_labels(rng, n)
                edges = [[enc_label(nodes[i]), enc_label(nodes[j])] for i, j in itertools.combinations(range(n), 2)
                         if rng.random() < 0.8]
                if len(edges) == 2:
                    edges = edges[:1]
                c["graph"] = {"form": form, "n": n, "nodes": [enc_label(x) for x in nodes], "edges": edges,
                              "edge_type": rng.choice(["tuple", "tuple", "tuple", "tuple", "list"])}
        else:
            c["graph"] = _gen_graph(rng)
            if c["graph"].get("edge_type") == "list" and rng.random() < 0.7:
                c["graph"]["edge_type"] = "tuple"
        c["num_cycles"] = rng.choice([1, 1, 2, 3, 5, 8])
        c["R"] = rng.choice([None, None, 1, 1, 2, 3])
        c["plant"] = rng.choice([None, True, False])
        c["planted"] = rng.random() < 0.25
        c["bad"] = rng.choice([None] * 8 + ["num_cycles", "R", "max_failed_cycles"])
        c["min_len"] = rng.choice([None, None, None, 4])
    elif sub == 'chimera':
        c["m"] = rng.choice([0, 1, 1, 2, 2, 3])
        c["n"] = rng.choice([None, None, 0, 1, 2, 3])
        c["t"] = rng.choice([None, None, 0, 1, 2, 3, 4])
        if c["m"] * (c["n"] if c["n"] is not None else c["m"]) * (c["t"] or 4) > 40:
            c["t"] = 2
        c["multiplier"] = rng.choice([None, None, "2", "1/2", "-3", "0", "5"])
        c["sub_keep"] = rng.choice([None, None, None, "3/4", "1/2"])
        c["cls"] = rng.random() < 0.1
    elif sub in ('ran_r', 'power_r'):
        c["graph"] = _gen_graph(rng)
        c["r"] = rng.randint(1, 5)
        if sub == 'ran_r':
            c["cls"] = rng.random() < 0.15
        else:
            c["seed_form"] = rng.choice(["int", "int", "generator"])
    else:
        c["graph"] = _gen_graph(rng)
        c["p"] = rng.choice(["0", "1/4", "1/2", "3/4", "1"])
        c["fm"] = rng.choice([True, False, None])
        c["cls"] = rng.random() < 0.15
    return c


def gen_case(rng, tier, kind):
    if kind == 'knapsack':
        return _gen_knapsack(rng, tier)
    if kind == 'binpacking':
        return _gen_binpacking(rng, tier)
    if kind == 'multiknapsack':
        return _gen_multiknapsack(rng, tier)
    if kind == 'random':
        return _gen_random(rng, tier)
    raise ValueError(kind)


# ----------------------------------------------------------------------------------------------
# CQM kinds: common evaluation

def _all_rows(n):
    return ((np.arange(2 ** n, dtype=np.int64)[:, None] >> np.arange(n, dtype=np.int64)[None, :]) & 1)


def _case_rng(c, salt=""):
    return _pyrandom.Random(json.dumps(c, sort_keys=True, default=str) + salt)


def _compare(cqm, vs, rows, spec, fails, c):
    """spec(rows) -> (feasible bool vector, objective*D int vector, D, reason(row) -> str).
    Compares with the model's own evaluation, vectorised over all rows, then through the
    per-sample API on a subset.  Returns (number of rows, number of feasible rows)."""
    feas_spec, objD_spec, D, reason = spec(rows)
    rows8 = rows.astype(np.int8)
    # --- vectorised: objective and every constraint as the model evaluates them
    obj_obs = np.asarray(cqm.objective.energies((rows8, vs)), dtype=np.float64)
    feas_obs = np.ones(len(rows), dtype=bool)
    for lab, con in cqm.constraints.items():
        lhs = np.asarray(con.lhs.energies((rows8, vs)), dtype=np.float64)
        rhs = float(con.rhs)
        s = _sense(con)
        sat = (lhs <= rhs) if s == '<=' else (lhs >= rhs) if s == '>=' else (lhs == rhs)
        feas_obs &= sat
    bad = np.nonzero(feas_obs != feas_spec)[0]
    if len(bad):
        k = int(bad[0])
        fails.add('feasibility', f"assignment {_ones(vs, rows[k])}: constraints of the model "
                  f"{'hold' if feas_obs[k] else 'fail'} but the documented condition is "
                  f"{'met' if feas_spec[k] else 'not met'} ({reason(rows[k])}); {len(bad)} of {len(rows)} assignments differ")
    # objective: obs*D must be exactly the integer objD_spec (D is a power of two or obs integral)
    objD_obs = obj_obs * D
    bad = np.nonzero(objD_obs != objD_spec.astype(np.float64))[0]
    if len(bad):
        k = int(bad[0])
        fails.add('objective', f"assignment {_ones(vs, rows[k])}: objective energy {wlib.frs(obj_obs[k])} but documented "
                  f"objective is {Fraction(int(objD_spec[k]), D)}; {len(bad)} of {len(rows)} assignments differ")
    # --- per-sample API on a subset
    m = len(rows)
    if m <= API_ALL_MAX:
        idx = list(range(m))
    else:
        r = _case_rng(c, "api")
        fe = [int(i) for i in np.nonzero(feas_spec)[0]]
        if len(fe) > API_FEASIBLE_CAP:
            fe = r.sample(fe, API_FEASIBLE_CAP)
        idx = sorted(set(fe) | set(r.sample(range(m), min(m, API_EXTRA))))
    for k in idx:
        sample = {v: int(b) for v, b in zip(vs, rows[k])}
        cf = bool(cqm.check_feasible(sample))
        if cf != bool(feas_spec[k]):
            fails.add('feasibility', f"check_feasible({_ones(vs, rows[k])}) is {cf} but the documented condition is "
                      f"{'met' if feas_spec[k] else 'not met'} ({reason(rows[k])})")
            break
        viol = cqm.violations(sample)
        vf = all(F(x) <= 0 for x in viol.values())
        if vf != bool(feas_spec[k]):
            fails.add('feasibility', f"violations({_ones(vs, rows[k])}) = { {l: wlib.frs(x) for l, x in viol.items()} } "
                      f"but the documented condition is {'met' if feas_spec[k] else 'not met'} ({reason(rows[k])})")
            break
        e = F(cqm.objective.energy(sample))
        if e * D != int(objD_spec[k]):
            fails.add('objective', f"objective.energy({_ones(vs, rows[k])}) = {e} but documented objective is "
                      f"{Fraction(int(objD_spec[k]), D)}")
            break
    return len(rows), int(feas_spec.sum())


def _check_vars(cqm, expected, fails):
    vs = list(cqm.variables)
    if set(map(repr, vs)) != set(map(repr, expected)) or len(vs) != len(expected):
        fails.add('labels', f"variables are {vs!r}, documented labels are {expected!r}")
        return False
    for v in vs:
        if cqm.vartype(v) is not dimod.BINARY:
            fails.add('labels', f"variable {v!r} has vartype {cqm.vartype(v)!r}, expected BINARY")
            return False
    return True


def _check_linear(name, lin, nq, allowed, fails):
    ok = True
    if nq:
        fails.add('structure', f"{name} has {nq} quadratic terms, the formulation is linear")
        ok = False
    extra = [v for v in lin if v not in allowed and lin[v] != 0]
    if extra:
        fails.add('structure', f"{name} has non-zero terms on unexpected variables {extra!r}")
        ok = False
    return ok


def _check_seed(make, cqm, fails, desc):
    np.random.seed(12345)
    np.random.random(3)
    other = make()
    if other is cqm:
        fails.add('seed', f"{desc}: a second call returned the same object")
    elif not (cqm.is_equal(other) and other.is_equal(cqm)):
        fails.add('seed', f"{desc}: two calls with the same arguments and seed give different models")


def _in_range(name, xs, rng_, fails, default):
    lo, hi = rng_ if rng_ is not None else default
    for i, x in enumerate(xs):
        if x.denominator != 1:
            fails.add('range', f"{name}[{i}] = {x} is not an integer")
        elif not (lo <= x <= hi):
            fails.add('range', f"{name}[{i}] = {x} outside the declared range ({lo}, {hi})")
        elif x == hi:
            # numpy convention (and the source): the high end is exclusive
            fails.add('range_high_endpoint', f"{name}[{i}] = {x} equals the high end of the declared range ({lo}, {hi}), "
                      "which numpy's integers(low, high) excludes")


def _finish(c, fails, feats, nontrivial, observed):
    feats["what"] = fails.what()
    if fails.notes:
        feats["notes"] = "+".join(sorted(fails.notes))
    return {"coq": None, "py_fail": fails.text(), "features": feats, "nontrivial": bool(nontrivial),
            "observed": observed}


def _rows_for(nvars, c, builder):
    if nvars <= ENUM_MAX_VARS:
        return _all_rows(nvars), True
    r = _case_rng(c, "rows")
    rows = [builder(r) for _ in range(SAMPLED_ROWS)]
    return np.array(rows, dtype=np.int64), False


# ----------------------------------------------------------------------------------------------
# knapsack

def _run_knapsack(c):
    fails = Fails()
    feats = {"kind": "knapsack", "mode": c["mode"]}
    if c["mode"] == 'random':
        n = c["num_items"]
        kw = {}
        for k in ("value_range", "weight_range"):
            if c.get(k) is not None:
                kw[k] = tuple(c[k])
        if c.get("tightness_ratio") is not None:
            kw["tightness_ratio"] = float(_fr(c["tightness_ratio"]))
        ratio = _fr(c["tightness_ratio"]) if c.get("tightness_ratio") is not None else Fraction(1, 2)

        def make():
            return DG.random_knapsack(n, seed=c["seed"], **kw)
        desc = f"random_knapsack({n}, seed={c['seed']}, {kw})"
    else:
        vals = list(map(Fraction, c["values"])); wts = list(map(Fraction, c["weights"])); cap = _fr(c["capacity"])
        n = len(vals)

        def make():
            return DG.knapsack([_num(x) for x in vals], [_num(x) for x in wts], _num(cap))
        desc = f"knapsack({c['values']}, {c['weights']}, {c['capacity']})"
    feats["enumerated"] = n <= ENUM_MAX_VARS
    try:
        cqm = make()
    except Exception as e:
        fails.add('exception', f"{desc} raised {type(e).__name__}: {e}")
        return _finish(c, fails, feats, False, {})
    x = [f"x_{i}" for i in range(n)]
    if not _check_vars(cqm, x, fails):
        return _finish(c, fails, feats, False, {})
    # --- structure and data as the model reports them
    if len(cqm.constraints) != 1:
        fails.add('structure', f"{len(cqm.constraints)} constraints {list(cqm.constraints)!r}, expected one capacity constraint")
        return _finish(c, fails, feats, False, {})
    lab, con = next(iter(cqm.constraints.items()))
    if _sense(con) != '<=':
        fails.add('sense', f"constraint {lab!r} has sense {_sense(con)}, documented: total weight <= capacity")
    olin, ooff, onq = _expr(cqm.objective)
    clin, coff, cnq = _expr(con.lhs)
    _check_linear("objective", olin, onq, set(x), fails)
    _check_linear(f"constraint {lab!r}", clin, cnq, set(x), fails)
    if ooff != 0:
        fails.add('objective', f"objective offset is {ooff}, expected 0")
    rv = [-olin.get(v, Fraction(0)) for v in x]
    rw = [clin.get(v, Fraction(0)) for v in x]
    rc = F(con.rhs) - coff
    observed = {"values": list(map(str, rv)), "weights": list(map(str, rw)), "capacity": str(rc)}
    if c["mode"] == 'random':
        _in_range("value", rv, c.get("value_range"), fails, (10, 30))
        _in_range("weight", rw, c.get("weight_range"), fails, (10, 30))
        doc_cap = ratio * sum(rw)
        if rc != math.floor(doc_cap):
            fails.add('capacity', f"capacity {rc} but tightness_ratio*sum(weights) = {ratio}*{sum(rw)} = {doc_cap}")
        g = np.random.default_rng(c["seed"])
        ev = g.integers(*(c.get("value_range") or (10, 30)), n); ew = g.integers(*(c.get("weight_range") or (10, 30)), n)
        feats["rederive"] = [int(a) for a in ev] == rv and [int(a) for a in ew] == rw
        sv, sw, sc = rv, rw, doc_cap
    else:
        if rv != vals or rw != wts or rc != cap:
            fails.add('data', f"model encodes values {observed['values']}, weights {observed['weights']}, capacity {rc}; "
                      f"given {c['values']}, {c['weights']}, {c['capacity']}")
        sv, sw, sc = vals, wts, cap
    LAST.update(kind='knapsack', cqm=cqm, values=sv, weights=sw, capacity=(rc if c['mode'] == 'random' else cap))
    # --- documented condition on all (or sampled) assignments
    D = _lcm(sv + sw + [sc])
    vD = np.array([int(a * D) for a in sv], dtype=np.int64)
    wD = np.array([int(a * D) for a in sw], dtype=np.int64)
    cD = int(sc * D)
    vs = list(cqm.variables)
    col = [vs.index(v) for v in x]

    def spec(rows):
        X = rows[:, col]
        load = X @ wD

        def reason(row):
            return f"total weight {Fraction(int(row[col] @ wD), D)} vs capacity {sc}"
        return load <= cD, -(X @ vD), D, reason

    def builder(r):
        if r.random() < 0.5:
            p = r.choice([0.1, 0.3, 0.5, 0.8])
            return [1 if r.random() < p else 0 for _ in vs]
        # greedy fill in random order up to the documented capacity, then sometimes one item more
        row = [0] * len(vs)
        order = list(range(n)); r.shuffle(order)
        load = 0
        for i in order:
            if load + int(wD[i]) <= cD:
                row[col[i]] = 1; load += int(wD[i])
        rest = [i for i in order if not row[col[i]]]
        if rest and r.random() < 0.4:
            row[col[r.choice(rest)]] = 1
        return row
    rows, _ = _rows_for(len(vs), c, builder)
    nrows, nfeas = _compare(cqm, vs, rows, spec, fails, c)
    observed.update({"assignments": nrows, "feasible": nfeas})
    _check_seed(make, cqm, fails, desc)
    return _finish(c, fails, feats, 0 < nfeas < nrows, observed)


# ----------------------------------------------------------------------------------------------
# bin packing

def _run_binpacking(c):
    fails = Fails()
    feats = {"kind": "binpacking", "mode": c["mode"]}
    if c["mode"] == 'random':
        n = c["num_items"]
        kw = {}
        if c.get("weight_range") is not None:
            kw["weight_range"] = tuple(c["weight_range"])

        def make():
            s = c["seed"] if c.get("seed_form", "int") == "int" else np.random.default_rng(c["seed"])
            return DG.random_bin_packing(n, seed=s, **kw)
        desc = f"random_bin_packing({n}, seed={c['seed']}{' (as Generator)' if c.get('seed_form') == 'generator' else ''}, {kw})"
    else:
        wts = list(map(Fraction, c["weights"])); cap = _fr(c["capacity"])
        n = len(wts)

        def make():
            return DG.bin_packing([_num(w) for w in wts], _num(cap))
        desc = f"bin_packing({c['weights']}, {c['capacity']})"
    feats["enumerated"] = n + n * n <= ENUM_MAX_VARS
    try:
        cqm = make()
    except Exception as e:
        fails.add('exception', f"{desc} raised {type(e).__name__}: {e}")
        return _finish(c, fails, feats, False, {})
    y = [f"y_{j}" for j in range(n)]
    x = {(i, j): f"x_{i}_{j}" for i in range(n) for j in range(n)}
    if not _check_vars(cqm, y + list(x.values()), fails):
        return _finish(c, fails, feats, False, {})
    cons = dict(cqm.constraints.items())
    want = [f"item_placing_{i}" for i in range(n)] + [f"capacity_bin_{j}" for j in range(n)]
    if len(cons) != 2 * n or set(cons) != set(want):
        fails.add('structure', f"constraints {list(cons)!r}, expected one placement constraint per item and one capacity "
                  f"constraint per bin ({want!r})")
        return _finish(c, fails, feats, False, {})
    olin, ooff, onq = _expr(cqm.objective)
    _check_linear("objective", olin, onq, set(y), fails)
    if ooff != 0 or any(olin.get(v, Fraction(0)) != 1 for v in y):
        fails.add('objective', f"objective is {olin} + {ooff}, documented: number of used bins")
    for i in range(n):
        con = cons[f"item_placing_{i}"]
        lin, off, nq = _expr(con.lhs)
        _check_linear(f"item_placing_{i}", lin, nq, {x[i, j] for j in range(n)}, fails)
        if _sense(con) != '==':
            fails.add('sense', f"item_placing_{i} has sense {_sense(con)}, documented: each item goes to exactly one bin")
        if any(lin.get(x[i, j], Fraction(0)) != 1 for j in range(n)) or F(con.rhs) - off != 1:
            fails.add('structure', f"item_placing_{i} is {lin} + {off} {_sense(con)} {F(con.rhs)}, expected sum_j x_{i}_j == 1")
    rws, rcs = [], []
    for j in range(n):
        con = cons[f"capacity_bin_{j}"]
        lin, off, nq = _expr(con.lhs)
        _check_linear(f"capacity_bin_{j}", lin, nq, {x[i, j] for i in range(n)} | {y[j]}, fails)
        if _sense(con) != '<=':
            fails.add('sense', f"capacity_bin_{j} has sense {_sense(con)}, documented: load of a used bin <= capacity")
        if F(con.rhs) - off != 0:
            fails.add('structure', f"capacity_bin_{j} has constant {off} and rhs {F(con.rhs)}, expected none")
        rws.append([lin.get(x[i, j], Fraction(0)) for i in range(n)])
        rcs.append(-lin.get(y[j], Fraction(0)))
    rw, rc = rws[0], rcs[0]
    if any(w != rw for w in rws) or any(k != rc for k in rcs):
        fails.add('structure', f"bins differ: weights per bin {[[str(a) for a in w] for w in rws]}, capacities {list(map(str, rcs))}")
    observed = {"weights": list(map(str, rw)), "capacity": str(rc)}
    if c["mode"] == 'random':
        _in_range("weight", rw, c.get("weight_range"), fails, (10, 30))
        doc_cap = Fraction(sum(rw), 5)          # num_items * mean(weights) / 5
        src_cap = int(n * np.mean([int(a) for a in rw]) / 5)     # the source's float expression
        if rc != math.floor(doc_cap):
            if rc == src_cap:
                fails.add('capacity_float', f"{desc}: bin capacity {rc}, exact floor {math.floor(doc_cap)}")
            else:
                fails.add('capacity', f"{desc}: bin capacity {rc} but num_items*mean(weights)/5 = {sum(rw)}/5 = {doc_cap} "
                          f"(weights {observed['weights']})")
        g = np.random.default_rng(c["seed"])
        feats["rederive"] = [int(a) for a in g.integers(*(c.get("weight_range") or (10, 30)), n)] == rw
        sw, sc = rw, Fraction(rc)
    else:
        if rw != wts or rc != cap:
            fails.add('data', f"model encodes weights {observed['weights']}, capacity {rc}; given {c['weights']}, {c['capacity']}")
        sw, sc = wts, cap
    LAST.update(kind='binpacking', cqm=cqm, weights=sw, capacity=sc)
    feats["zero_weight"] = any(w == 0 for w in sw)
    D = _lcm(sw + [sc])
    wD = np.array([int(a * D) for a in sw], dtype=np.int64)
    cD = int(sc * D)
    vs = list(cqm.variables)
    ycol = [vs.index(v) for v in y]
    xcol = np.array([[vs.index(x[i, j]) for j in range(n)] for i in range(n)])

    def parts(rows):
        X = rows[:, xcol.reshape(-1)].reshape(len(rows), n, n)        # [row, item, bin]
        Y = rows[:, ycol]
        return X, Y

    def spec(rows):
        X, Y = parts(rows)
        placed = (X.sum(axis=2) == 1).all(axis=1)
        load = np.einsum('mij,i->mj', X, wD)
        count = X.sum(axis=1)
        # an item sits only in a used (open) bin; a used bin is within capacity
        binok = np.where(Y == 1, load <= cD, count == 0).all(axis=1)

        def reason(row):
            X1, Y1 = parts(row[None, :])
            X1, Y1 = X1[0], Y1[0]
            out = []
            for i in range(n):
                b = [j for j in range(n) if X1[i, j]]
                if len(b) != 1:
                    out.append(f"item {i} is in bins {b}")
            for j in range(n):
                its = [i for i in range(n) if X1[i, j]]
                ld = Fraction(int(sum(wD[i] for i in its)), D)
                if Y1[j] == 0 and its:
                    out.append(f"bin {j} is not used but holds items {its}")
                elif Y1[j] == 1 and ld > sc:
                    out.append(f"bin {j} load {ld} > capacity {sc}")
            return "; ".join(out) if out else "every item in exactly one used bin, every used bin within capacity"
        return placed & binok, Y.sum(axis=1) * D, D, reason

    def builder(r):
        row = [0] * len(vs)
        mode = r.random()
        if mode < 0.15:
            return [1 if r.random() < r.choice([0.05, 0.2, 0.5]) else 0 for _ in vs]
        if mode < 0.6:
            nb = r.randint(1, n)
            for i in range(n):
                j = r.randrange(nb)
                row[xcol[i, j]] = 1
                row[ycol[j]] = 1
        else:
            # first fit in random item and bin order under the documented capacity
            items = list(range(n)); r.shuffle(items)
            bins = list(range(n)); r.shuffle(bins)
            load = {j: 0 for j in bins}
            for i in items:
                fit = [j for j in bins if load[j] + int(wD[i]) <= cD]
                j = fit[0] if fit else r.choice(bins)
                if not fit or load[j] == 0:
                    bins.remove(j); bins.insert(0 if r.random() < 0.7 else len(bins), j)
                load[j] += int(wD[i])
                row[xcol[i, j]] = 1
                row[ycol[j]] = 1
            if mode < 0.9:
                return row
        if mode < 0.35:
            row[ycol[r.randrange(n)]] ^= 1
        elif mode < 0.5:
            row[xcol[r.randrange(n), r.randrange(n)]] ^= 1
        elif mode < 0.6 or r.random() < 0.3:
            for j in range(n):
                row[ycol[j]] = 1
        return row
    rows, _ = _rows_for(len(vs), c, builder)
    nrows, nfeas = _compare(cqm, vs, rows, spec, fails, c)
    observed.update({"assignments": nrows, "feasible": nfeas})
    _check_seed(make, cqm, fails, desc)
    return _finish(c, fails, feats, 0 < nfeas < nrows, observed)


# ----------------------------------------------------------------------------------------------
# multiple knapsack

def _run_multiknapsack(c):
    fails = Fails()
    feats = {"kind": "multiknapsack", "mode": c["mode"]}
    if c["mode"] == 'random':
        n, nb = c["num_items"], c["num_bins"]
        kw = {}
        for k in ("value_range", "weight_range"):
            if c.get(k) is not None:
                kw[k] = tuple(c[k])
        if c.get("seed") is not None:
            kw["seed"] = c["seed"]

        def make():
            return DG.random_multi_knapsack(n, nb, **kw)
        desc = f"random_multi_knapsack({n}, {nb}, {kw})"
    else:
        vals = list(map(Fraction, c["values"])); wts = list(map(Fraction, c["weights"]))
        caps = list(map(Fraction, c["capacities"]))
        n, nb = len(vals), len(caps)

        def make():
            return DG.multi_knapsack([_num(a) for a in vals], [_num(a) for a in wts], [_num(a) for a in caps])
        desc = f"multi_knapsack({c['values']}, {c['weights']}, {c['capacities']})"
    feats["enumerated"] = n * nb <= ENUM_MAX_VARS
    try:
        cqm = make()
    except Exception as e:
        fails.add('exception', f"{desc} raised {type(e).__name__}: {e}")
        return _finish(c, fails, feats, False, {})
    x = {(i, j): f"x_{i}_{j}" for i in range(n) for j in range(nb)}
    if not _check_vars(cqm, list(x.values()), fails):
        return _finish(c, fails, feats, False, {})
    cons = dict(cqm.constraints.items())
    want = [f"item_placing_{i}" for i in range(n)] + [f"capacity_bin_{j}" for j in range(nb)]
    if len(cons) != n + nb or set(cons) != set(want):
        fails.add('structure', f"constraints {list(cons)!r}, expected one placement constraint per item and one capacity "
                  f"constraint per knapsack ({want!r})")
        return _finish(c, fails, feats, False, {})
    olin, ooff, onq = _expr(cqm.objective)
    _check_linear("objective", olin, onq, set(x.values()), fails)
    if ooff != 0:
        fails.add('objective', f"objective offset is {ooff}, expected 0")
    rvs = [[-olin.get(x[i, j], Fraction(0)) for i in range(n)] for j in range(nb)]
    rv = rvs[0]
    if any(v != rv for v in rvs):
        fails.add('objective', f"item values differ between knapsacks: {[[str(a) for a in v] for v in rvs]}")
    for i in range(n):
        con = cons[f"item_placing_{i}"]
        lin, off, nq = _expr(con.lhs)
        _check_linear(f"item_placing_{i}", lin, nq, {x[i, j] for j in range(nb)}, fails)
        if _sense(con) != '<=':
            fails.add('sense', f"item_placing_{i} has sense {_sense(con)}, documented: each item goes to at most one knapsack")
        if any(lin.get(x[i, j], Fraction(0)) != 1 for j in range(nb)) or F(con.rhs) - off != 1:
            fails.add('structure', f"item_placing_{i} is {lin} + {off} {_sense(con)} {F(con.rhs)}, expected sum_j x_{i}_j <= 1")
    rws, rc = [], []
    for j in range(nb):
        con = cons[f"capacity_bin_{j}"]
        lin, off, nq = _expr(con.lhs)
        _check_linear(f"capacity_bin_{j}", lin, nq, {x[i, j] for i in range(n)}, fails)
        if _sense(con) != '<=':
            fails.add('sense', f"capacity_bin_{j} has sense {_sense(con)}, documented: weight in a knapsack <= its capacity")
        rws.append([lin.get(x[i, j], Fraction(0)) for i in range(n)])
        rc.append(F(con.rhs) - off)
    rw = rws[0]
    if any(w != rw for w in rws):
        fails.add('structure', f"item weights differ between knapsacks: {[[str(a) for a in w] for w in rws]}")
    observed = {"values": list(map(str, rv)), "weights": list(map(str, rw)), "capacities": list(map(str, rc))}
    if c["mode"] == 'random':
        _in_range("value", rv, c.get("value_range"), fails, (10, 50))
        _in_range("weight", rw, c.get("weight_range"), fails, (10, 50))
        wlo, whi = c.get("weight_range") or (10, 50)
        # the docstring only says "randomly assigned"; the source draws from [int(lo*n/b), int(hi*n/b))
        clo, chi = int(wlo * n / nb), int(whi * n / nb)
        for j, k in enumerate(rc):
            if k.denominator != 1 or not (clo <= k < chi):
                fails.add('range', f"capacity[{j}] = {k} outside [{clo}, {chi}) = weight_range * num_items / num_bins")
        g = np.random.default_rng(c["seed"] if c.get("seed") is not None else 32)
        ev = g.integers(*(c.get("value_range") or (10, 50)), n); ew = g.integers(wlo, whi, n); ec = g.integers(clo, chi, nb)
        feats["rederive"] = ([int(a) for a in ev] == rv and [int(a) for a in ew] == rw and [int(a) for a in ec] == rc)
        sv, sw, sc = rv, rw, rc
    else:
        if rv != vals or rw != wts or rc != caps:
            fails.add('data', f"model encodes {observed}; given {c['values']}, {c['weights']}, {c['capacities']}")
        sv, sw, sc = vals, wts, caps
    LAST.update(kind='multiknapsack', cqm=cqm, values=sv, weights=sw, capacities=sc)
    D = _lcm(sv + sw + sc)
    vD = np.array([int(a * D) for a in sv], dtype=np.int64)
    wD = np.array([int(a * D) for a in sw], dtype=np.int64)
    cD = np.array([int(a * D) for a in sc], dtype=np.int64)
    vs = list(cqm.variables)
    xcol = np.array([[vs.index(x[i, j]) for j in range(nb)] for i in range(n)])

    def parts(rows):
        return rows[:, xcol.reshape(-1)].reshape(len(rows), n, nb)

    def spec(rows):
        X = parts(rows)
        atmost = (X.sum(axis=2) <= 1).all(axis=1)
        load = np.einsum('mij,i->mj', X, wD)
        within = (load <= cD[None, :]).all(axis=1)
        obj = -np.einsum('mij,i->m', X, vD)

        def reason(row):
            X1 = parts(row[None, :])[0]
            out = []
            for i in range(n):
                b = [j for j in range(nb) if X1[i, j]]
                if len(b) > 1:
                    out.append(f"item {i} is in knapsacks {b}")
            for j in range(nb):
                ld = Fraction(int(sum(wD[i] for i in range(n) if X1[i, j])), D)
                if ld > sc[j]:
                    out.append(f"knapsack {j} weight {ld} > capacity {sc[j]}")
            return "; ".join(out) if out else "every item in at most one knapsack, every knapsack within capacity"
        return atmost & within, obj, D, reason

    def builder(r):
        row = [0] * len(vs)
        if r.random() < 0.2:
            return [1 if r.random() < r.choice([0.1, 0.3, 0.6]) else 0 for _ in vs]
        pin = r.choice([0.2, 0.5, 0.9])
        if r.random() < 0.5:
            for i in range(n):
                if r.random() < pin:
                    row[xcol[i, r.randrange(nb)]] = 1
        else:
            # first fit in random order under the capacities
            items = list(range(n)); r.shuffle(items)
            load = [0] * nb
            for i in items:
                fit = [j for j in range(nb) if load[j] + int(wD[i]) <= int(cD[j])]
                if fit and r.random() < 0.95:
                    j = r.choice(fit)
                    load[j] += int(wD[i]); row[xcol[i, j]] = 1
        if r.random() < 0.3:
            row[xcol[r.randrange(n), r.randrange(nb)]] ^= 1
        return row
    rows, _ = _rows_for(len(vs), c, builder)
    nrows, nfeas = _compare(cqm, vs, rows, spec, fails, c)
    observed.update({"assignments": nrows, "feasible": nfeas})
    _check_seed(make, cqm, fails, desc)
    return _finish(c, fails, feats, 0 < nfeas < nrows, observed)


# ----------------------------------------------------------------------------------------------
# random-model generators (monitored)

def _vt_arg(c):
    vt, form = c["vartype"], c.get("vt_form", "str")
    if form == 'str':
        return vt
    if form == 'enum':
        return gen.VT[vt]
    return {-1, 1} if vt == 'SPIN' else {0, 1}


def _two_seq(lbl):
    return isinstance(lbl, (str, tuple, list)) and len(lbl) == 2


def _graph_arg(g):
    """-> (argument builder, declared nodes, declared edges as frozensets, description, ambiguous)"""
    form = g["form"]
    if form == 'int':
        n = g["n"]
        return (lambda: n), list(range(n)), [frozenset(e) for e in itertools.combinations(range(n), 2)], repr(n), False
    nodes = [dec_label(x) for x in g["nodes"]]
    mk = tuple if g.get("edge_type", "tuple") == "tuple" else list
    edges = [mk((dec_label(u), dec_label(v))) for u, v in g["edges"]]
    fe = [frozenset(e) for e in edges]
    if form == 'pair':
        return (lambda: (list(nodes), list(edges))), nodes, fe, repr((nodes, edges)), False
    if form == 'pair_int':
        return (lambda: (g["n"], list(edges))), list(range(g["n"])), fe, repr((g["n"], edges)), False
    if form == 'edges':
        declared = []
        for e in edges:
            for u in e:
                if u not in declared:
                    declared.append(u)
        # graph_argument cannot tell a two-edge list from a (nodes, edges) pair when both end points of
        # the second edge are themselves sequences of length 2 (two-character strings, pairs)
        amb = len(edges) == 2 and all(_two_seq(u) for u in edges[1])
        return (lambda: list(edges)), declared, fe, repr(edges), amb
    if form == 'nx':
        import networkx as nx

        def build():
            G = nx.Graph()
            G.add_nodes_from(nodes)
            G.add_edges_from(edges)
            return G
        return build, nodes, fe, f"nx.Graph(nodes={nodes!r}, edges={edges!r})", False
    raise ValueError(form)


def _nx_ok():
    try:
        import networkx  # noqa: F401
        return True
    except Exception:
        return False


def _bias_gen(spec):
    lo, hi, s = spec
    rs = np.random.RandomState(s)
    return lambda k: rs.randint(lo, hi + 1, size=k).astype(np.float64)


def _chimera_edges(m, n, t):
    """Chimera(m, n, t), written down independently: node ((i*n + j)*2 + u)*t + k ; a tile is K_{t,t} between its two
    shores ; shore 0 couples vertically (i, i+1), shore 1 horizontally (j, j+1), same k"""
    def idx(i, j, u, k):
        return ((i * n + j) * 2 + u) * t + k
    inner, outer = set(), set()
    for i in range(m):
        for j in range(n):
            for k0 in range(t):
                for k1 in range(t):
                    inner.add(frozenset((idx(i, j, 0, k0), idx(i, j, 1, k1))))
            for k in range(t):
                if i + 1 < m:
                    outer.add(frozenset((idx(i, j, 0, k), idx(i + 1, j, 0, k))))
                if j + 1 < n:
                    outer.add(frozenset((idx(i, j, 1, k), idx(i, j + 1, 1, k))))
    return inner, outer


def _run_chimera(c):
    fails = Fails()
    feats = {"kind": "random", "sub": "chimera"}
    seed = c["seed"]
    m = c["m"]
    n = c["n"] if c["n"] is not None else m
    t = c["t"] if c["t"] is not None else 4
    mult = Fraction(c["multiplier"]) if c.get("multiplier") is not None else Fraction(3)
    args = [m] + ([c["n"]] if c["n"] is not None or c["t"] is not None else []) + ([c["t"]] if c["t"] is not None else [])
    if c["n"] is None and c["t"] is not None:
        args = [m, None, c["t"]]
    kw = {}
    if c.get("multiplier") is not None:
        kw["multiplier"] = float(mult)
    if c.get("cls"):
        kw["cls"] = dimod.BinaryQuadraticModel
    inner, outer = _chimera_edges(m, n, t)
    nodes = list(range(2 * m * n * t))
    if c.get("sub_keep") is not None:
        rs = _case_rng(c, "sub")
        keep = Fraction(c["sub_keep"])
        nodes = [v for v in nodes if rs.random() < keep]
        es = [e for e in sorted(map(sorted, inner | outer)) if e[0] in nodes and e[1] in nodes and rs.random() < keep]
        rs.shuffle(nodes)
        kw["subgraph"] = (list(nodes), [tuple(e) if rs.random() < 0.5 else (e[1], e[0]) for e in es])
        inner = {e for e in inner if sorted(e) in es}
        outer = {e for e in outer if sorted(e) in es}
        feats["subgraph"] = True
    desc = f"chimera_anticluster({', '.join(map(repr, args))}, seed={seed}, {kw})"

    def call(sd):
        with warnings.catch_warnings():
            warnings.simplefilter("ignore", DeprecationWarning)
            return DG.chimera_anticluster(*args, seed=sd, **kw)
    try:
        bqm = call(seed)
    except Exception as e:
        fails.add('exception', f"{desc} raised {type(e).__name__}: {e}")
        return _finish(c, fails, feats, False, {})
    signs = set()
    for k_ in range(1 + SEED_SWEEP):
        sd = seed if k_ == 0 else (seed + 7919 * k_) % (2 ** 31 - 1)
        b = bqm if k_ == 0 else call(sd)
        tag = f"[seed {sd}] "
        if b.vartype is not dimod.SPIN:
            fails.add('vartype', f"{desc}: {tag}vartype {b.vartype!r}")
        if sorted(b.variables) != sorted(nodes):
            fails.add('graph', f"{desc}: {tag}variables {sorted(b.variables)!r}, declared nodes {sorted(nodes)!r}")
        if c.get("sub_keep") is not None and list(b.variables) != list(nodes):
            fails.add('graph', f"{desc}: {tag}variables not in the order of the subgraph's node list")
        got = {frozenset(e): F(x) for e, x in b.quadratic.items()}
        if set(got) != inner | outer:
            fails.add('graph', f"{desc}: {tag}interactions differ from the Chimera edges: missing "
                      f"{sorted(map(sorted, (inner | outer) - set(got)))[:4]!r}, extra {sorted(map(sorted, set(got) - (inner | outer)))[:4]!r}")
        for e, x in got.items():
            want = {Fraction(1), Fraction(-1)} if e in inner else {mult, -mult}
            if x not in want:
                fails.add('range', f"{desc}: {tag}{'intra' if e in inner else 'inter'}-tile interaction {sorted(e)!r} = {x}, allowed {sorted(want)!r}")
            signs.add(x > 0)
        if any(F(x) != 0 for x in b.linear.values()) or F(b.offset) != 0:
            fails.add('range', f"{desc}: {tag}linear biases / offset are not zero")
        if fails.items:
            break
    if not fails.items:
        np.random.seed(999)
        b2 = call(seed)
        if b2 is bqm or not (bqm.is_equal(b2) and list(b2.variables) == list(bqm.variables)):
            fails.add('seed', f"{desc}: two calls with the same seed differ")
        if len(inner | outer) >= 4 and mult != 0 and len(signs) < 2:
            fails.add('seed', f"{desc}: every interaction has the same sign for {1 + SEED_SWEEP} seeds")
    res = _finish(c, fails, feats, len(nodes) > 0, {"num_variables": len(nodes), "num_interactions": len(inner | outer)})
    if c.get("sub_keep") is None and not fails.items:
        # per-case tie of Model/RandStruct.v (tile_edges / intertile_edges), decided in Coq (CChimera)
        quad = wlib.clist([f"({int(u)}%nat, {int(v)}%nat, {wlib.cq(F(x))})" for (u, v), x in bqm.quadratic.items()])
        res["coq"] = f"(CChimera {wlib.cnat(m)} {wlib.cnat(n)} {wlib.cnat(t)} {wlib.cq(mult)} {quad})"
        res["features"]["coq_tie"] = "chimera"
    return res


def _run_fcl(c):
    fails = Fails()
    feats = {"kind": "random", "sub": "fcl", "form": c["graph"]["form"]}
    seed = c["seed"]
    if c["graph"]["form"] == 'nx' and not _nx_ok():
        return _finish(c, fails, dict(feats, skipped="networkx"), False, {})
    garg, nodes, edges, gdesc, amb = _graph_arg(c["graph"])
    kw = {}
    R = c.get("R")
    if R is not None:
        kw["R"] = R
    if c.get("plant") is not None:
        kw["plant_solution"] = c["plant"]
    plant = c.get("plant") is not False
    planted = None
    if c.get("planted") and nodes:
        rs = _case_rng(c, "planted")
        planted = {v: rs.choice((-1, 1)) for v in nodes}
        kw["planted_solution"] = dict(planted)
    if c.get("min_len"):
        L = c["min_len"]
        kw["cycle_predicates"] = (lambda cyc: len(cyc) >= L,)
        kw["max_failed_cycles"] = 400
    ncyc = c["num_cycles"]
    if c.get("bad"):
        bkw = dict(kw)
        bargs = [garg(), ncyc]
        if c["bad"] == "num_cycles":
            bargs[1] = 0
        else:
            bkw[c["bad"]] = 0
        try:
            with warnings.catch_warnings():
                warnings.simplefilter("ignore", DeprecationWarning)
                DG.frustrated_loop(*bargs, seed=seed, **bkw)
            fails.add('guard', f"frustrated_loop({gdesc}, ...) accepted {c['bad']} = 0")
        except ValueError:
            pass
        except Exception as e:
            if not amb and not (isinstance(e, TypeError) and "unhashable" in str(e)):
                fails.add('guard', f"frustrated_loop({gdesc}, ...) with {c['bad']} = 0 raised {type(e).__name__}: {e}")
    desc = f"frustrated_loop({gdesc}, {ncyc}, seed={seed}, {({k: v for k, v in kw.items() if k != 'cycle_predicates'})})"
    gwhat = 'graph_form_edgelist2' if amb else 'graph'

    def call(sd):
        with warnings.catch_warnings():
            warnings.simplefilter("ignore", DeprecationWarning)
            return DG.frustrated_loop(garg(), ncyc, seed=sd, **kw)
    found = 0
    first = None
    for k_ in range(1 + SEED_SWEEP // 2):
        sd = seed if k_ == 0 else (seed + 7919 * k_) % (2 ** 31 - 1)
        tag = f"[seed {sd}] "
        try:
            b = call(sd)
        except RuntimeError as e:
            if "below requested" in str(e):
                continue             # documented: fewer cycles found than requested
            fails.add('exception', f"{desc} {tag}raised RuntimeError: {e}")
            break
        except Exception as e:
            if not nodes and isinstance(e, ValueError):
                break                # a graph without nodes has no loop; an error is the documented outcome
            if isinstance(e, TypeError) and "unhashable" in str(e) and c["graph"].get("edge_type") == "list":
                # frustrated_loop uses the edges as dict keys: edges given as LISTS (accepted by every other generator
                # through graph_argument) raise TypeError; no model is produced - reported, not a violation
                fails.add('fcl_list_edges', f"{desc} raised {type(e).__name__}: {e}")
            else:
                fails.add(gwhat if amb else 'exception', f"{desc} {tag}raised {type(e).__name__}: {e}")
            break
        found += 1
        if k_ == 0:
            first = b
        if b.vartype is not dimod.SPIN:
            fails.add('vartype', f"{desc}: {tag}vartype {b.vartype!r}")
        if set(b.variables) != set(nodes) or len(b.variables) != len(nodes):
            fails.add(gwhat, f"{desc}: {tag}variables {list(b.variables)!r}, declared nodes {nodes!r}")
            break
        got = {frozenset(e): F(x) for e, x in b.quadratic.items()}
        if set(got) != set(edges):
            fails.add(gwhat, f"{desc}: {tag}interactions {sorted(map(tuple, got), key=repr)!r} differ from the declared edges")
            break
        for e, x in got.items():
            if x.denominator != 1 or (R is not None and abs(x) > R):
                fails.add('range', f"{desc}: {tag}interaction {tuple(e)!r} = {x}: not an integer of absolute value <= R")
        if any(F(x) != 0 for x in b.linear.values()) or F(b.offset) != 0:
            fails.add('range', f"{desc}: {tag}linear biases / offset are not zero")
        if not any(x != 0 for x in got.values()):
            fails.add('range', f"{desc}: {tag}{ncyc} loops were found but every interaction is zero")
        # the planted assignment (all +1, or the given one) and its negation are ground states
        if plant and len(nodes) <= 8 and not fails.items:
            order = list(b.variables)
            energies = b.energies((np.array(list(itertools.product((-1, 1), repeat=len(order))), dtype=np.int8), order))
            emin = F(min(energies)) if len(energies) else Fraction(0)
            ps = planted if planted is not None else {v: 1 for v in order}
            for sgn in (1, -1):
                e0 = F(b.energy({v: sgn * ps[v] for v in order}))
                if e0 != emin:
                    fails.add('planted', f"{desc}: {tag}the planted assignment{' (negated)' if sgn < 0 else ''} has energy {e0}, "
                              f"the minimum is {emin}")
        # one planted loop (Model/FrustLoop.v planted_J): the non-zero couplings form ONE simple cycle, exactly one of
        # them is +1 (anti-ferromagnetic), all others -1
        if ncyc == 1 and plant and planted is None and not fails.items:
            nz = {e: x for e, x in got.items() if x != 0}
            deg = {}
            for e in nz:
                for v in e:
                    deg[v] = deg.get(v, 0) + 1
            if sorted(nz.values()) != [Fraction(-1)] * (len(nz) - 1) + [Fraction(1)] or len(nz) < 3 or set(deg.values()) != {2}:
                fails.add('planted', f"{desc}: {tag}one planted loop must be a simple cycle with one +1 and otherwise -1 couplings: "
                          f"{sorted((tuple(e), str(x)) for e, x in nz.items())!r}")
            else:
                # connected: a single cycle, not several
                adjm = {}
                for e in nz:
                    u_, v_ = tuple(e)
                    adjm.setdefault(u_, []).append(v_)
                    adjm.setdefault(v_, []).append(u_)
                seen, stack = set(), [next(iter(adjm))]
                while stack:
                    w_ = stack.pop()
                    if w_ not in seen:
                        seen.add(w_)
                        stack += adjm[w_]
                if len(seen) != len(adjm):
                    fails.add('planted', f"{desc}: {tag}the couplings of one loop are not connected")
        # every loop is frustrated: sum over loops (len - 2) with one violated edge each => the minimum is > -sum|J|
        if not plant and len(nodes) <= 8 and not fails.items and any(x != 0 for x in got.values()):
            order = list(b.variables)
            energies = b.energies((np.array(list(itertools.product((-1, 1), repeat=len(order))), dtype=np.int8), order))
            if ncyc == 1 and F(min(energies)) != -sum(abs(x) for x in got.values()) + 2:
                fails.add('planted', f"{desc}: {tag}a single loop must be frustrated by exactly one edge: minimum {F(min(energies))}, "
                          f"sum |J| = {sum(abs(x) for x in got.values())}")
        if fails.items:
            break
    if first is not None and not fails.items:
        np.random.seed(4242)
        b2 = call(seed)
        if b2 is first or not first.is_equal(b2):
            fails.add('seed', f"{desc}: two calls with the same seed differ")
    return _finish(c, fails, feats, found > 0, {"found": found})


def _run_random(c):
    if c["sub"] == 'fcl':
        return _run_fcl(c)
    if c["sub"] == 'chimera':
        return _run_chimera(c)
    fails = Fails()
    sub = c["sub"]
    feats = {"kind": "random", "sub": sub}
    seed = c["seed"]
    amb = False
    if "graph" in c:
        feats["form"] = c["graph"]["form"]
        if c["graph"]["form"] == 'nx' and not _nx_ok():
            return _finish(c, fails, dict(feats, skipped="networkx"), False, {})
        garg, nodes, edges, gdesc, amb = _graph_arg(c["graph"])
    want_vt = gen.VT[c["vartype"]] if "vartype" in c else dimod.SPIN
    ckw = {"cls": dimod.BinaryQuadraticModel} if c.get("cls") else {}
    exact_edges = True

    if sub in ('uniform', 'randint'):
        f = DG.uniform if sub == 'uniform' else DG.randint
        kw = dict(ckw)
        if c.get("low") is not None:
            kw["low"], kw["high"] = _num(Fraction(c["low"])), _num(Fraction(c["high"]))
        lo = Fraction(c["low"]) if c.get("low") is not None else Fraction(0)
        hi = Fraction(c["high"]) if c.get("high") is not None else Fraction(1)

        def make():
            return f(garg(), _vt_arg(c), seed=seed, **kw)
        desc = f"{sub}({gdesc}, {c['vartype']!r}, seed={seed}, {kw})"

        def check_bias(where, b):
            if not (lo <= b <= hi):
                fails.add('range', f"{desc}: {where} = {b} outside [{lo}, {hi}]")
            elif sub == 'randint' and b.denominator != 1:
                fails.add('range', f"{desc}: {where} = {b} is not an integer")
        check_lin = check_quad = check_off = check_bias
    elif sub in ('gnp', 'gnm'):
        n = c["n"]
        labels = [dec_label(x) for x in c["labels"]] if c.get("labels") is not None else None
        nodes = labels if labels is not None else list(range(n))
        allpairs = [frozenset(e) for e in itertools.combinations(nodes, 2)]
        exact_edges = False
        edges = allpairs

        def rs():
            return seed if c.get("rs_form", "int") == "int" else np.random.RandomState(seed)

        def bg():
            return {} if c.get("bias") is None else {"bias_generator": _bias_gen(c["bias"])}
        if sub == 'gnp':
            p = Fraction(c["p"])

            def make():
                return DG.gnp_random_bqm(list(labels) if labels is not None else n, float(p), _vt_arg(c),
                                         random_state=rs(), **bg())
            desc = f"gnp_random_bqm({labels if labels is not None else n!r}, {float(p)}, {c['vartype']!r}, random_state={seed}, bias={c.get('bias')})"
        else:
            m = c["m"]

            def make():
                return DG.gnm_random_bqm(list(labels) if labels is not None else n, m, _vt_arg(c),
                                         random_state=rs(), **bg())
            desc = f"gnm_random_bqm({labels if labels is not None else n!r}, {m}, {c['vartype']!r}, random_state={seed}, bias={c.get('bias')})"
        if c.get("bias") is None:
            def check_bias(where, b):
                if not (0 <= b < 1):
                    fails.add('range', f"{desc}: {where} = {b} outside [0, 1) of RandomState.uniform")
        else:
            blo, bhi = c["bias"][0], c["bias"][1]

            def check_bias(where, b):
                if b.denominator != 1 or not (blo <= b <= bhi):
                    fails.add('range', f"{desc}: {where} = {b} not produced by the bias generator (integers {blo}..{bhi})")
        check_lin = check_quad = check_off = check_bias
    elif sub in ('ran_r', 'power_r', 'doped'):
        if sub == 'ran_r':
            r = c["r"]

            def make():
                return DG.ran_r(r, garg(), seed=seed, **ckw)
            desc = f"ran_r({r}, {gdesc}, seed={seed})"
            allowed = set(range(-r, 0)) | set(range(1, r + 1))
        elif sub == 'power_r':
            r = c["r"]

            def make():
                s = seed if c.get("seed_form", "int") == "int" else np.random.default_rng(seed)
                return DG.power_r(r, garg(), seed=s)
            desc = f"power_r({r}, {gdesc}, seed={seed}{' (as Generator)' if c.get('seed_form') == 'generator' else ''})"
            allowed = set(range(-r, 0)) | set(range(1, r + 1))
        else:
            p = Fraction(c["p"])
            fm = c.get("fm")
            fkw = {} if fm is None else {"fm": fm}

            def make():
                return DG.doped(float(p), garg(), seed=seed, **fkw, **ckw)
            desc = f"doped({float(p)}, {gdesc}, seed={seed}, {fkw})"
            allowed = {-1, 1}
            # probability of +1 (AFM): p for a doped FM problem, 1-p for a doped AFM problem
            p_plus = p if fm in (None, True) else 1 - p
            if p_plus == 0:
                allowed = {-1}
            elif p_plus == 1:
                allowed = {1}

        def check_lin(where, b):
            if b != 0:
                fails.add('range', f"{desc}: {where} = {b}, documented: all linear biases are zero")

        def check_quad(where, b):
            if b.denominator != 1 or int(b) not in allowed:
                fails.add('range', f"{desc}: {where} = {b} not in {sorted(allowed)}")

        def check_off(where, b):
            if b != 0:
                fails.add('range', f"{desc}: {where} = {b}, expected 0")
    else:
        raise ValueError(sub)

    def call():
        with warnings.catch_warnings():
            warnings.simplefilter("ignore", DeprecationWarning)
            return make()
    try:
        bqm = call()
    except Exception as e:
        what = 'graph_form_edgelist2' if amb else 'exception'
        fails.add(what, f"{desc} raised {type(e).__name__}: {e}")
        return _finish(c, fails, feats, False, {})
    if not isinstance(bqm, dimod.BinaryQuadraticModel):
        fails.add('type', f"{desc} returned {type(bqm).__name__}")
        return _finish(c, fails, feats, False, {})
    # --- vartype
    if bqm.vartype is not want_vt:
        fails.add('vartype', f"{desc}: vartype {bqm.vartype!r}, expected {want_vt!r}")
    # --- graph
    got_nodes = list(bqm.variables)
    missing = [v for v in nodes if v not in got_nodes]
    extra = [v for v in got_nodes if v not in nodes]
    gwhat = 'graph_form_edgelist2' if amb else 'graph'
    if missing:
        iso = all(not any(v in e for e in edges) for v in missing) if exact_edges else False
        fails.add('doped_isolated_nodes' if (sub == 'doped' and iso and not amb) else gwhat,
                  f"{desc}: declared nodes {missing!r} are not variables of the model (variables {got_nodes!r})")
    if extra or len(got_nodes) != len(set(map(repr, got_nodes))):
        fails.add(gwhat, f"{desc}: variables {got_nodes!r} but declared nodes are {nodes!r}")
    got_edges = [frozenset(e) for e in bqm.quadratic]
    bad = [tuple(e) for e in got_edges if e not in edges or len(e) != 2]
    if bad:
        fails.add(gwhat, f"{desc}: interactions {bad!r} are not declared edges")
    if exact_edges:
        lost = [tuple(e) for e in edges if e not in got_edges]
        if lost:
            fails.add(gwhat, f"{desc}: declared edges {lost!r} have no interaction")
    elif sub == 'gnp':
        if p == 0 and got_edges:
            fails.add('graph', f"{desc}: p = 0 but interactions {list(bqm.quadratic)!r}")
        if p == 1 and len(got_edges) != len(edges):
            fails.add('graph', f"{desc}: p = 1 but only {len(got_edges)} of {len(edges)} interactions")
    elif sub == 'gnm':
        wantm = min(m, len(edges))
        if len(got_edges) != wantm:
            fails.add('graph', f"{desc}: {len(got_edges)} interactions, documented: fixed number {wantm}")
    # --- ranges
    for v, b in bqm.linear.items():
        check_lin(f"linear[{v!r}]", F(b))
    for (u, v), b in bqm.quadratic.items():
        check_quad(f"quadratic[{u!r},{v!r}]", F(b))
    check_off("offset", F(bqm.offset))
    # --- "for all seeds": the range / support clauses are re-examined for SEED_SWEEP further seeds derived from the
    # case's seed, so that a draw that leaves the declared range with probability ~1/(high-low+2) per seed (e.g. only
    # the offset, only the last linear bias) is met in (practically) every case and not in one case out of three
    seed0 = seed
    for k_ in range(SEED_SWEEP):
        seed = (seed0 + 1 + 7919 * k_) % (2 ** 31 - 1)      # `make` reads the enclosing variable
        try:
            bk = call()
        except Exception as e:
            fails.add('graph_form_edgelist2' if amb else 'exception', f"{desc} with seed {seed} raised {type(e).__name__}: {e}")
            break
        tag = f"[seed {seed}] "
        for v, b in bk.linear.items():
            check_lin(tag + f"linear[{v!r}]", F(b))
        for (u, v), b in bk.quadratic.items():
            check_quad(tag + f"quadratic[{u!r},{v!r}]", F(b))
            if frozenset((u, v)) not in edges:
                fails.add(gwhat, f"{desc}: {tag}interaction {(u, v)!r} is not a declared edge")
        check_off(tag + "offset", F(bk.offset))
        if set(bk.variables) - set(nodes):
            fails.add(gwhat, f"{desc}: {tag}variables {list(bk.variables)!r} but declared nodes are {nodes!r}")
        if fails.items:
            break
    seed = seed0
    # --- reproducible from the seed, independent of numpy's global state, independent objects
    np.random.seed(54321)
    np.random.random(5)
    b2 = call()
    if b2 is bqm:
        fails.add('seed', f"{desc}: a second call returned the same object")
    elif not (bqm.is_equal(b2) and b2.is_equal(bqm)):
        fails.add('seed', f"{desc}: two calls with the same seed give different models: {bqm!r} vs {b2!r}")
    else:
        b2.offset = b2.offset + 1
        if len(b2.variables):
            v0 = b2.variables[0]
            b2.set_linear(v0, b2.get_linear(v0) + 3)
        b2.add_variable('__fresh__')
        b3 = call()
        if not bqm.is_equal(b3):
            fails.add('seed', f"{desc}: changing the model returned by one call changed what another call with the same seed returns / returned")
    # --- gnm: the structure is documented to be drawn from random_state
    if sub == 'gnm' and len(edges) >= 6 and 1 <= c["m"] <= len(edges) - 1:
        structs = set()
        for s in range(12):
            with warnings.catch_warnings():
                warnings.simplefilter("ignore", DeprecationWarning)
                bb = DG.gnm_random_bqm(list(labels) if labels is not None else n, c["m"], _vt_arg(c),
                                       random_state=(seed + 1 + s) % (2 ** 31))
            structs.add(frozenset(frozenset(e) for e in bb.quadratic))
        structs.add(frozenset(got_edges))
        if len(structs) == 1:
            fails.add('gnm_structure', f"{desc}: the same {c['m']} of {len(edges)} possible interactions "
                      f"{sorted(map(tuple, got_edges), key=repr)!r} for 13 different seeds; random_state is documented to generate the structure")
    observed = {"num_variables": len(got_nodes), "num_interactions": len(got_edges)}
    return _finish(c, fails, feats, len(got_nodes) > 0, observed)


def run_case(case):
    k = case["kind"]
    if k == 'knapsack':
        return _run_knapsack(case)
    if k == 'binpacking':
        return _run_binpacking(case)
    if k == 'multiknapsack':
        return _run_multiknapsack(case)
    if k == 'random':
        return _run_random(case)
    raise ValueError(k)


if __name__ == "__main__":
    import sys, json, wlib
    rng = wlib.Rng(int(sys.argv[1]) if len(sys.argv) > 1 else 0)
    n = int(sys.argv[2]) if len(sys.argv) > 2 else 200
    bad = 0
    for i in range(n):
        k = KINDS[i % len(KINDS)]
        c = gen_case(rng, 'quick', k); r = run_case(json.loads(json.dumps(c)))
        if r.get('py_fail'): bad += 1; print(k, r['py_fail'], json.dumps(c))
    print('cases', n, 'failures', bad)
