"""C17 worker: problem generators.
Kinds decided in Coq (Model/ChkC17.v): gate, mult, comb, mwis.
Kinds decided in the worker with exact integers/Fractions (w_c17_py.py): knapsack, binpacking,
multiknapsack, random."""
import itertools
from fractions import Fraction
import numpy as np
import dimod
import dimod.generators as DG

import wlib
from wlib import cq, clist, cnat, cpair, cbool, cz, copt
import gen
from gen import F, enc_label, dec_label, LabelTable, coq_obs
import w_c17_py as PYK

KIND_WEIGHTS = [('gate', 30), ('comb', 14), ('mwis', 14), ('mult', 1), ('multwire', 2), ('qap', 6), ('magic', 4), ('sat', 8), ('qknap', 6), ('anticross', 2),
                ('knapsack', 10), ('binpacking', 8), ('multiknapsack', 8), ('random', 14)]
STRENGTHS = ['1/2', '1', '2', '3']
GATES = {'and': ('and_gate', 3, 'GAnd'), 'or': ('or_gate', 3, 'GOr'), 'xor': ('xor_gate', 4, 'GXor'),
         'halfadder': ('halfadder_gate', 4, 'GHalf'), 'fulladder': ('fulladder_gate', 5, 'GFull')}
POOL = [0, 1, 2, 3, 4, 'a', 'b', 'c', 'in0', 'out', ('t', 1), ('t', 2), ('x', 0, 1), 'x0', 5, 7, -1, 'aux', 'carry']
MULT_QUICK = [(1, 1), (1, 2), (2, 1), (2, 2), (1, 3), (3, 1), (2, 3), (3, 2)]


def pick_kind(rng):
    tot = sum(w for _, w in KIND_WEIGHTS)
    x = rng.random() * tot
    for k, w in KIND_WEIGHTS:
        x -= w
        if x < 0:
            return k
    return KIND_WEIGHTS[0][0]


def gen_case(rng, tier):
    kind = pick_kind(rng)
    if kind in PYK.KINDS:
        return PYK.gen_case(rng, tier, kind)
    if kind == 'gate':
        g = rng.choice(sorted(GATES))
        labels = rng.sample(POOL, GATES[g][1])
        return {"kind": kind, "gate": g, "labels": [enc_label(x) for x in labels],
                "strength": rng.choice(STRENGTHS + [None]), "bad_strength": rng.choice([None, None, None, '0', '-1'])}
    if kind == 'mult':
        sizes = MULT_QUICK * (1 if tier == 'thorough' else 2) + [(3, 3)]     # 3x3 costs ~20 s
        na, nb = rng.choice(sizes)
        return {"kind": kind, "na": na, "nb": nb, "nb_form": rng.choice(['pos', 'kw', 'omit'] if na == nb else ['pos', 'kw'])}
    if kind == 'qap':
        n = rng.randint(1, 3)
        # distances are symmetric with a zero diagonal; asymmetric distance matrices are an open question
        # (corpus/C17/qap_asymmetric.json): QAP_ASYMMETRIC switches them on in the random stream
        D = [[0] * n for _ in range(n)]
        for i in range(n):
            for j in range(i):
                D[i][j] = D[j][i] = rng.randint(0, 9)
                if QAP_ASYMMETRIC and rng.random() < 0.5:
                    D[i][j] = rng.randint(0, 9)
        F = [[rng.randint(0, 9) if i != j or rng.random() < 0.3 else 0 for j in range(n)] for i in range(n)]
        if rng.random() < 0.3:
            D = [[str(Fraction(v, 2)) for v in r] for r in D]
        return {"kind": kind, "n": n, "D": D, "F": F, "form": rng.choice(['list', 'array'])}
    if kind == 'anticross':
        which = rng.choice(['clique', 'loops'])
        return {"kind": kind, "which": which, "n": rng.choice([6, 8, 10, 12, 14, 20] if which == 'clique' else [8, 10, 12, 14, 16, 24]),
                "bad": rng.choice([None, None, 5, 7, 4])}
    if kind == 'qknap':
        multi = rng.random() < 0.5
        n = rng.randint(1, 3 if multi else 4)
        b = rng.randint(1, 2)
        den = rng.choice([1, 1, 2])
        vals = [str(Fraction(rng.randint(0, 9), den)) for _ in range(n)]
        wts = [str(Fraction(rng.randint(0, 9), den)) for _ in range(n)]
        P = [[0] * n for _ in range(n)]
        for i in range(n):
            for j in range(i + 1):
                P[i][j] = P[j][i] = rng.randint(-4, 9)
        tot = sum(Fraction(w) for w in wts)
        caps = [str(Fraction(rng.randint(0, int(tot) + 2))) for _ in range(b)]
        return {"kind": kind, "multi": multi, "values": vals, "weights": wts, "profits": P,
                "capacities": caps if multi else caps[:1], "form": rng.choice(['list', 'array'])}
    if kind == 'sat':
        fn = rng.choice(['nae3sat', '2in4sat', 'kmcsat'])
        k = {'nae3sat': 3, '2in4sat': 4}.get(fn) or rng.randint(1, 4)
        n = rng.randint(k, 6)
        labels = rng.sample(POOL, n) if rng.random() < 0.4 else None
        return {"kind": kind, "fn": fn, "k": k, "n": n, "labels": None if labels is None else [enc_label(x) for x in labels],
                "num_clauses": rng.randint(0, 7), "plant": rng.choice([True, False, None]),
                "seed": rng.choice([0, 1, rng.randrange(1 << 31)]), "seed_form": rng.choice(['int', 'int', 'generator'])}
    if kind == 'magic':
        return {"kind": kind, "n": rng.choice([1, 2, 3, 3, 3, 4]), "power": rng.choice([1, 1, 2, None]),
                "rseed": rng.randrange(1 << 30)}
    if kind == 'multwire':
        na, nb = rng.randint(1, 6), rng.randint(1, 6)
        return {"kind": kind, "na": na, "nb": nb, "nb_form": rng.choice(['pos', 'kw', 'omit'] if na == nb else ['pos', 'kw'])}
    if kind == 'comb':
        n = rng.randint(1, 6)
        # every Collection spelling of the variables (round-6 miss C17 r6m1: a range that is not range(0, m) treated
        # like the integer case): range with any start / step, str, frozenset, dict, dict keys view, Variables
        form = rng.choice(['int', 'list', 'tuple', 'list', 'range', 'range', 'str', 'frozenset', 'dict', 'keys', 'variables'])
        labels = rng.sample(POOL, n) if form != 'int' else list(range(n))
        rng_spec = None
        if form == 'range':
            start, step = rng.choice([-2, 0, 1, 3, 5]), rng.choice([1, 1, 2, 3, -1, -2])
            if start == 0 and step == 1:
                start = 2
            rng_spec = [start, start + step * n, step]
            labels = list(range(*rng_spec))
        elif form == 'str':
            labels = rng.sample(list('abcxyzqr'), n)
        k = rng.randint(0, n)
        return {"kind": kind, "n": n, "form": form, "labels": [enc_label(x) for x in labels], "k": k, "range": rng_spec,
                "bad_k": rng.choice([None, None, None, n + 1, -1]),
                "strength": rng.choice(STRENGTHS + [None]), "vartype": rng.choice(['BINARY', 'SPIN', None])}
    # mwis family
    n = rng.randint(1, 6)
    labels = rng.sample(POOL, n)
    edges = []
    for i in range(n):
        for j in range(i + 1, n):
            if rng.random() < 0.45:
                e = [labels[i], labels[j]] if rng.random() < 0.5 else [labels[j], labels[i]]
                edges.append(e)
                if rng.random() < 0.08:
                    edges.append(list(reversed(e)))      # a repeated edge accumulates
    which = rng.choice(['is', 'mis', 'mwis', 'mwis'])
    nodes = None
    if rng.random() < 0.75:
        keep = rng.choice([0.8, 0.8, 0.4, 1.0])       # partial node lists: the others default to weight 1
        sub = [l for l in labels if rng.random() < keep]
        if rng.random() < 0.15:
            sub.append(rng.choice([x for x in POOL if x not in labels]))    # a node without any edge
        rng.shuffle(sub)
        if which == 'mwis':
            wmode = rng.choice(['mixed', 'mixed', 'below1', 'below1', 'above1', 'ints'])
            def w():
                if wmode == 'below1':
                    return Fraction(rng.choice([0, 1, 1, 2, 3, 3, 5, 7]), 8)
                if wmode == 'above1':
                    return Fraction(rng.randint(5, 24), 4)
                if wmode == 'ints':
                    return Fraction(rng.randint(0, 5))
                return Fraction(rng.randint(0, 12), rng.choice([1, 2, 4]))
            nodes = [[enc_label(v), str(w())] for v in sub]
            if sub and rng.random() < 0.15:
                nodes.append([enc_label(sub[0]), str(w())])   # repeated: last wins
        else:
            nodes = [[enc_label(v), "1"] for v in sub]
    return {"kind": "mwis", "which": which, "edges": [[enc_label(u), enc_label(v)] for u, v in edges], "nodes": nodes,
            "strength": rng.choice([None, None, None, None] + STRENGTHS + ['5/2']),
            "mult": rng.choice([None, None, '1', '2', '3/2', '3'])}


def all_rows(n):
    return list(itertools.product((0, 1), repeat=n))


def crows(rows, energies):
    return clist([cpair(clist([cbool(b) for b in r]), cq(F(e))) for r, e in zip(rows, energies)])


def run_gate(c):
    fn_name, nargs, ctor = GATES[c["gate"]]
    fn = getattr(DG, fn_name)
    labels = [dec_label(x) for x in c["labels"]]
    feats = {"kind": "gate", "gate": c["gate"]}
    py_fail = None
    if c.get("bad_strength") is not None:
        try:
            fn(*labels, strength=float(F(c["bad_strength"])))
            py_fail = f"{fn_name} accepted strength {c['bad_strength']}"
            feats["what"] = "guard"
        except ValueError:
            pass
    if c["strength"] is None:
        s = Fraction(1)
        bqm = fn(*labels)
    else:
        s = F(c["strength"])
        bqm = fn(*labels, strength=float(s))
    if bqm.vartype is not dimod.BINARY:
        py_fail = f"vartype {bqm.vartype}"
    if set(bqm.variables) != set(labels) or len(bqm.variables) != nargs:
        py_fail = f"variables {list(bqm.variables)!r}, expected the labels {labels!r}"
        return {"coq": None, "py_fail": py_fail, "features": feats}
    T = LabelTable(labels)
    o = gen.observe(bqm)
    rows = all_rows(nargs)
    en = bqm.energies((np.array(rows, dtype=np.int8), labels))
    coq = f"(CGate {ctor} {cq(s)} {coq_obs(o, T)} {crows(rows, en)})"
    return {"coq": coq, "py_fail": py_fail, "features": feats, "nontrivial": True, "observed": {"bqm": o}}


import re
WIRE_RE = [(re.compile(r'^a(\d+)$'), 'WA'), (re.compile(r'^b(\d+)$'), 'WB'), (re.compile(r'^p(\d+)$'), 'WP'),
           (re.compile(r'^and(\d+),(\d+)$'), 'WAnd'), (re.compile(r'^sum(\d+),(\d+)$'), 'WSum'),
           (re.compile(r'^carry(\d+),(\d+)$'), 'WCarry')]


def wire_term(bqm, na, nb):
    """Coq case tying the wiring model (Model/MultCircuit.v) to the BQM coefficient-wise; None if a
    variable name is not one of the generator's wire names"""
    names = []
    for v in bqm.variables:
        for rx, ctor in WIRE_RE:
            m = rx.match(str(v)) if isinstance(v, str) else None
            if m:
                names.append("(" + ctor + " " + " ".join(cnat(int(g)) for g in m.groups()) + ")")
                break
        else:
            return None
    T = LabelTable(list(bqm.variables))
    return f"(CMultWire {cnat(na)} {cnat(nb)} {clist(names)} {coq_obs(gen.observe(bqm), T)})"


def make_mult(c):
    na, nb = c["na"], c["nb"]
    if c["nb_form"] == 'pos':
        return DG.multiplication_circuit(na, nb)
    if c["nb_form"] == 'kw':
        return DG.multiplication_circuit(num_arg1_bits=na, num_arg2_bits=nb)
    return DG.multiplication_circuit(na)


def run_multwire(c):
    na, nb = c["na"], c["nb"]
    feats = {"kind": "multwire", "size": f"{na}x{nb}"}
    bqm = make_mult(c)
    t = wire_term(bqm, na, nb)
    if t is None:
        return {"coq": None, "features": feats, "py_fail": f"unexpected variable names {list(bqm.variables)!r}"}
    return {"coq": t, "features": feats, "nontrivial": True, "py_fail": None if bqm.vartype is dimod.BINARY else "vartype"}


def run_mult(c):
    na, nb = c["na"], c["nb"]
    feats = {"kind": "mult", "size": f"{na}x{nb}"}
    bqm = make_mult(c)
    pbits = [f"p{k}" for k in range(na + nb)]
    present = [v for v in pbits if v in bqm.variables]
    npb = len(present)
    key = [f"a{i}" for i in range(na)] + [f"b{j}" for j in range(nb)] + pbits[:npb]
    missing = [v for v in key if v not in bqm.variables]
    if npb < na + nb:
        # absent high product bits are read as 0 (harmless for 1x1); anything else cannot encode a*b
        feats["mult_missing_bits"] = True
    if missing or present != pbits[:npb]:
        return {"coq": None, "features": feats, "nontrivial": True,
                "py_fail": f"multiplication_circuit({na}, {nb}): product bits present are {present}, inputs missing {missing}; "
                           f"variables: {sorted(map(str, bqm.variables))}"}
    if bqm.vartype is not dimod.BINARY:
        return {"coq": None, "features": feats, "py_fail": f"vartype {bqm.vartype}"}
    aux = [v for v in bqm.variables if v not in key]
    K, A = len(key), len(aux)
    mins = []
    if K + A <= 20:
        N = K + A
        idx = np.arange(2 ** N, dtype=np.int64)
        samples = np.empty((2 ** N, N), dtype=np.int8)
        for j in range(N):
            samples[:, j] = (idx >> (N - 1 - j)) & 1
        en = bqm.energies((samples, key + aux))
        mins = en.reshape(2 ** K, 2 ** A).min(axis=1)
    else:
        # fix the multiplicands, enumerate the rest (product bits first)
        idxA = None
        for a_b in itertools.product((0, 1), repeat=na + nb):
            sub = bqm.copy()
            sub.fix_variables(dict(zip(key[:na + nb], a_b)))
            rest = key[na + nb:] + aux
            N = len(rest)
            if idxA is None:
                idx = np.arange(2 ** N, dtype=np.int64)
                idxA = np.empty((2 ** N, N), dtype=np.int8)
                for j in range(N):
                    idxA[:, j] = (idx >> (N - 1 - j)) & 1
            en = sub.energies((idxA, rest))
            mins.extend(en.reshape(2 ** npb, 2 ** A).min(axis=1))
    rows = all_rows(K)
    if any(float(m) != int(m) for m in mins):
        return {"coq": None, "features": feats, "py_fail": "non-integral energy"}
    coq = f"(CMult {cnat(na)} {cnat(nb)} {cnat(npb)} {crows(rows, mins)})"
    wt = wire_term(bqm, na, nb)
    return {"coq": coq, "extra_coq": [wt] if wt else [], "features": feats, "nontrivial": True,
            "py_fail": None if wt else f"unexpected variable names {list(bqm.variables)!r}",
            "observed": {"num_variables": K + A, "aux": [str(v) for v in aux]}}


def run_comb(c):
    n, k = c["n"], c["k"]
    labels = [dec_label(x) for x in c["labels"]]
    feats = {"kind": "comb", "form": c["form"], "vartype": c["vartype"]}
    form = c["form"]
    arg = (n if form == 'int' else tuple(labels) if form == 'tuple' else range(*c["range"]) if form == 'range'
           else ''.join(labels) if form == 'str' else frozenset(labels) if form == 'frozenset'
           else dict.fromkeys(labels, 7) if form == 'dict' else dict.fromkeys(labels).keys() if form == 'keys'
           else dimod.variables.Variables(labels) if form == 'variables' else list(labels))
    kw = {}
    s = Fraction(1)
    if c["strength"] is not None:
        s = F(c["strength"])
        kw["strength"] = float(s) if s.denominator != 1 or n % 2 else int(s)
    vt = c["vartype"] or 'BINARY'
    if c["vartype"] is not None:
        kw["vartype"] = vt
    py_fail = None
    if c.get("bad_k") is not None:
        try:
            DG.combinations(arg, c["bad_k"], **kw)
            py_fail = f"combinations accepted k={c['bad_k']} for {n} variables"
            feats["what"] = "guard"
        except ValueError:
            pass
    bqm = DG.combinations(arg, k, **kw)
    if bqm.vartype is not gen.VT[vt]:
        py_fail = f"vartype {bqm.vartype}, requested {vt}"
    if set(bqm.variables) != set(labels) or len(bqm.variables) != n:
        py_fail = f"variables {list(bqm.variables)!r}, expected {labels!r}"
        return {"coq": None, "py_fail": py_fail, "features": feats}
    rows = all_rows(n)
    arr = np.array(rows, dtype=np.int8)
    if vt == 'SPIN':
        arr = 2 * arr - 1
    en = bqm.energies((arr, labels))
    binobs = "None"
    if vt == 'BINARY':
        binobs = f"(Some {coq_obs(gen.observe(bqm), LabelTable(labels))})"
    coq = f"(CComb {cnat(n)} {cz(k)} {cq(s)} {cz(s.numerator)} {s.denominator}%positive {binobs} {crows(rows, en)})"
    return {"coq": coq, "py_fail": py_fail, "features": feats, "nontrivial": n > 1,
            "observed": {"bqm": gen.observe(bqm)}}


def run_mwis(c):
    which = c["which"]
    edges = [(dec_label(u), dec_label(v)) for u, v in c["edges"]]
    nodes = None if c["nodes"] is None else [(dec_label(v), F(w)) for v, w in c["nodes"]]
    feats = {"kind": "mwis", "which": which}
    T = LabelTable()
    for u, v in edges:
        T.idx(u)
        T.idx(v)
    for v, _ in (nodes or []):
        T.idx(v)
    cedges = clist([cpair(cnat(T.idx(u)), cnat(T.idx(v))) for u, v in edges])
    py_fail = None
    if which == 'is':
        bqm = DG.independent_set(edges, None if nodes is None else [v for v, _ in nodes])
        coq_of = lambda o: f"(CIs {cedges} {cnat(len(T))} {coq_obs(o, T)})"
    elif which == 'mis':
        kw = {}
        s = None
        if c["strength"] is not None:
            s = F(c["strength"])
            kw["strength"] = float(s)
        bqm = DG.maximum_independent_set(edges, None if nodes is None else [v for v, _ in nodes], **kw)
        cn = clist([cnat(T.idx(v)) for v, _ in (nodes or [])])
        coq_of = lambda o: f"(CMis {copt(cq(s)) if s is not None else 'None'} {cedges} {cn} {cnat(len(T))} {coq_obs(o, T)})"
    else:
        kw = {}
        s = None
        if c["strength"] is not None:
            s = F(c["strength"])
            kw["strength"] = float(s)
        m = None
        if c["mult"] is not None:
            m = F(c["mult"])
            kw["strength_multiplier"] = float(m)
        bqm = DG.maximum_weight_independent_set(edges, None if nodes is None else [(v, float(w)) for v, w in nodes], **kw)
        cn = clist([cpair(cnat(T.idx(v)), cq(w)) for v, w in (nodes or [])])
        opt = lambda x: copt(cq(x)) if x is not None else 'None'
        coq_of = lambda o: f"(CMwis {opt(s)} {opt(m)} {cedges} {cn} {cnat(len(T))} {coq_obs(o, T)})"
    if bqm.vartype is not dimod.BINARY:
        py_fail = f"vartype {bqm.vartype}"
    want = {v for e in edges for v in e} | {v for v, _ in (nodes or [])}
    if set(bqm.variables) != want:
        py_fail = f"variables {list(bqm.variables)!r}, expected nodes {want!r}"
    o = gen.observe(bqm)
    return {"coq": coq_of(o), "py_fail": py_fail, "features": feats, "nontrivial": len(edges) > 0,
            "observed": {"bqm": o}}


COQ_ROWS = 256      # assignments per CQM case re-evaluated in Coq (all of them when the instance has <= 8 variables)
SENSE = {'<=': 'SLe', '>=': 'SGe', '==': 'SEq'}


def cqm_term(c, last):
    """Coq case for a knapsack / multi-knapsack / bin packing CQM: the generator's data, what the CQM
    reports, and check_feasible / objective energy on assignments (variables numbered as in Model/Knap.v)"""
    cqm = last["cqm"]
    kind = last["kind"]
    if kind == 'knapsack':
        n = len(last["values"])
        order = [f"x_{i}" for i in range(n)]
        head = f"CKnap {clist(map(cq, last['values']))} {clist(map(cq, last['weights']))} {cq(last['capacity'])}"
    elif kind == 'multiknapsack':
        n, b = len(last["values"]), len(last["capacities"])
        order = [f"x_{i}_{j}" for i in range(n) for j in range(b)]
        head = f"CMk {clist(map(cq, last['values']))} {clist(map(cq, last['weights']))} {clist(map(cq, last['capacities']))}"
    else:
        n = len(last["weights"])
        order = [f"y_{j}" for j in range(n)] + [f"x_{i}_{j}" for i in range(n) for j in range(n)]
        head = f"CBp {clist(map(cq, last['weights']))} {cq(last['capacity'])}"
    if set(order) != set(cqm.variables) or len(order) > 16:
        return None
    T = LabelTable(order)
    cobj = coq_obs(gen.observe(cqm.objective), T)
    ccons = []
    for lab, con in cqm.constraints.items():
        ccons.append(f"({coq_obs(gen.observe(con.lhs), T)}, {SENSE[con.sense.value]}, {cq(F(con.rhs))})")
    N = len(order)
    if N <= 8:
        rows = all_rows(N)
    else:
        rs = wlib.Rng(int.from_bytes(repr(sorted(c.items(), key=str)).encode()[:64].ljust(8, b'0')[:8], 'big') ^ N)
        rows = [tuple(0 for _ in order), tuple(1 for _ in order)]
        while len(rows) < COQ_ROWS:
            p = rs.choice([0.15, 0.3, 0.5])
            rows.append(tuple(1 if rs.random() < p else 0 for _ in order))
        if kind == 'binpacking':       # plausible packings: every item in one bin, those bins open
            for _k in range(COQ_ROWS // 2):
                row = [0] * N
                for i in range(n):
                    j = rs.randrange(n)
                    row[n + i * n + j] = 1
                    if rs.random() < 0.9:
                        row[j] = 1
                rows.append(tuple(row))
    crow = []
    for r in rows:
        sample = dict(zip(order, r))
        feas = bool(cqm.check_feasible(sample))
        en = F(cqm.objective.energy(sample))
        crow.append(f"({clist([cbool(b) for b in r])}, {cbool(feas)}, {cq(en)})")
    return f"({head} {cobj} {clist(ccons)} {clist(crow)})"


QAP_ASYMMETRIC = False

def run_anticross(c):
    """anti_crossing_clique / anti_crossing_loops: MONITORED against their docstrings (exact integers):
    structure of the clique generator, all-(+1) the unique ground state (n <= 14, ExactSolver), guards"""
    n, which = c["n"], c["which"]
    fn = DG.anti_crossing_clique if which == 'clique' else DG.anti_crossing_loops
    feats = {"kind": "anticross", "which": which}
    py_fail = None
    if c["bad"] is not None:
        try:
            fn(c["bad"])
            py_fail = f"{fn.__name__}({c['bad']}) accepted"
        except ValueError:
            pass
    bqm = fn(n)
    if bqm.vartype is not dimod.SPIN or F(bqm.offset) != 0:
        py_fail = "vartype / offset"
    if which == 'clique':
        hf = n // 2
        want_q = {frozenset((a, b)): -1 for a in range(hf) for b in range(a + 1, hf)}
        want_q.update({frozenset((a, a + hf)): -1 for a in range(hf)})
        want_l = {a: (0 if a == 1 else 1) for a in range(hf)}
        want_l.update({a + hf: -1 for a in range(hf)})
        got_q = {frozenset(k): F(v) for k, v in bqm.quadratic.items()}
        got_l = {k: F(v) for k, v in bqm.linear.items()}
        if got_q != want_q or got_l != want_l:
            py_fail = f"anti_crossing_clique({n}) is not the documented clique + pendant structure"
    if any(F(v) not in (-1, 0, 1) for v in bqm.linear.values()) or any(F(v) != -1 for v in bqm.quadratic.values()):
        py_fail = "biases outside {-1, 0, +1} / couplings other than -1"
    if bqm.num_variables <= 14:
        vs = list(bqm.variables)
        N = len(vs)
        idx = np.arange(2 ** N, dtype=np.int64)
        arr = np.empty((2 ** N, N), dtype=np.int8)
        for j in range(N):
            arr[:, j] = 2 * ((idx >> (N - 1 - j)) & 1) - 1
        en = bqm.energies((arr, vs))
        mn = en.min()
        ground = np.flatnonzero(en == mn)
        if len(ground) != 1 or not (arr[ground[0]] == 1).all():
            py_fail = f"{fn.__name__}({n}): the all-(+1) assignment is not the unique ground state"
    return {"coq": None, "py_fail": py_fail, "features": feats, "nontrivial": True}


def run_qknap(c):
    multi = c["multi"]
    vals = [F(v) for v in c["values"]]
    wts = [F(v) for v in c["weights"]]
    P = [[F(v) for v in r] for r in c["profits"]]
    caps = [F(v) for v in c["capacities"]]
    n, b = len(vals), len(caps)
    feats = {"kind": "qknap", "multi": multi}
    conv = (lambda M: np.array([[float(v) for v in r] for r in M])) if c["form"] == 'array' else \
           (lambda M: [[float(v) for v in r] for r in M])
    fl = lambda xs: [float(v) for v in xs]
    if multi:
        cqm = DG.quadratic_multi_knapsack(fl(vals), fl(wts), conv(P), fl(caps))
        order = [f"x_{i}_{j}" for i in range(n) for j in range(b)]
    else:
        cqm = DG.quadratic_knapsack(fl(vals), fl(wts), conv(P), float(caps[0]))
        order = [f"x_{i}" for i in range(n)]
    if set(cqm.variables) != set(order) or any(cqm.vartype(v) is not dimod.BINARY for v in cqm.variables):
        return {"coq": None, "features": feats, "py_fail": f"variables {list(cqm.variables)!r}, expected binary {order!r}"}
    T = LabelTable(order)
    N = len(order)
    rows = all_rows(N) if N <= 8 else None
    py_fail = None
    crow = []
    for r in rows:
        sample = dict(zip(order, r))
        feas = bool(cqm.check_feasible(sample))
        en = F(cqm.objective.energy(sample))
        # documented: minus the value placed, minus the profit of every pair of items placed together;
        # each knapsack within its capacity, each item in at most one knapsack
        if multi:
            X = [[r[i * b + j] for j in range(b)] for i in range(n)]
            want = -sum(vals[i] * X[i][j] for i in range(n) for j in range(b)) \
                   - sum(P[i][k] * X[i][j] * X[k][j] for i in range(n) for k in range(i + 1, n) for j in range(b))
            ok = all(sum(X[i]) <= 1 for i in range(n)) and all(sum(wts[i] * X[i][j] for i in range(n)) <= caps[j] for j in range(b))
        else:
            want = -sum(vals[i] * r[i] for i in range(n)) - sum(P[i][k] * r[i] * r[k] for i in range(n) for k in range(i + 1, n))
            ok = sum(wts[i] * r[i] for i in range(n)) <= caps[0]
        if (en != want or feas != ok) and py_fail is None:
            py_fail = f"assignment {sample}: objective {en} (documented {want}), feasible {feas} (documented {ok})"
        crow.append(f"({clist([cbool(x) for x in r])}, {cbool(feas)}, {cq(en)})")
    ccons = [f"({coq_obs(gen.observe(con.lhs), T)}, {SENSE[con.sense.value]}, {cq(F(con.rhs))})" for con in cqm.constraints.values()]
    mat = clist([clist([cq(v) for v in r]) for r in P])
    head = (f"CQMk {clist(map(cq, vals))} {clist(map(cq, wts))} {mat} {clist(map(cq, caps))}" if multi else
            f"CQKnap {clist(map(cq, vals))} {clist(map(cq, wts))} {mat} {cq(caps[0])}")
    coq = f"({head} {coq_obs(gen.observe(cqm.objective), T)} {clist(ccons)} {clist(crow)})"
    return {"coq": coq, "py_fail": py_fail, "features": feats, "nontrivial": n > 1}


def run_sat(c):
    k, n, m = c["k"], c["n"], c["num_clauses"]
    plant = bool(c["plant"])
    feats = {"kind": "sat", "fn": c["fn"], "plant": c["plant"]}
    labels = None if c["labels"] is None else [dec_label(x) for x in c["labels"]]
    arg = n if labels is None else labels

    def call():
        kw = {"seed": c["seed"] if c["seed_form"] == 'int' else np.random.default_rng(c["seed"])}
        if c["plant"] is not None:
            kw["plant_solution"] = c["plant"]
        if c["fn"] == 'nae3sat':
            return DG.random_nae3sat(arg, m, **kw)
        if c["fn"] == '2in4sat':
            return DG.random_2in4sat(arg, m, **kw)
        from dimod.generators.satisfiability import random_kmcsat
        return random_kmcsat(arg, k, m, **kw)
    bqm = call()
    py_fail = None
    if bqm.vartype is not dimod.SPIN:
        py_fail = f"vartype {bqm.vartype}"
    want = list(range(n)) if labels is None else labels
    if set(bqm.variables) != set(want) or len(bqm.variables) != n:
        return {"coq": None, "features": feats, "py_fail": f"variables {list(bqm.variables)!r}, expected {want!r}"}
    b2 = call()
    if not bqm.is_equal(b2) or b2 is bqm:
        py_fail = f"two calls with seed {c['seed']} give different models"
        feats["what"] = "seed"
    if any(F(b) != 0 for b in bqm.linear.values()) or F(bqm.offset) != 0:
        py_fail = "non-zero linear bias or offset"
    # replay of the documented sampling: k distinct variables and k signs per clause (rejection when planting)
    g = np.random.default_rng(c["seed"])
    clauses = []
    for _ in range(m):
        vs = g.choice(n, k, replace=False)
        signs = 2 * g.integers(0, 1, endpoint=True, size=k) - 1
        while plant and abs(sum(signs)) > 1:
            signs = 2 * g.integers(0, 1, endpoint=True, size=k) - 1
        clauses.append([(int(v), int(sg)) for v, sg in zip(vs, signs)])
    T = LabelTable(want)
    rows = all_rows(n)
    arr = 2 * np.array(rows, dtype=np.int8) - 1
    en = bqm.energies((arr, want))
    ccl = clist([clist([cpair(cnat(v), cz(sg)) for v, sg in cl]) for cl in clauses])
    wrapper = {'nae3sat': 1, '2in4sat': 2}.get(c["fn"], 0)
    coq = f"(CSat {cnat(wrapper)} {cnat(k)} {cbool(plant)} {cnat(n)} {ccl} {coq_obs(gen.observe(bqm), T)} {crows(rows, en)})"
    return {"coq": coq, "py_fail": py_fail, "features": feats, "nontrivial": m > 0 and k > 1,
            "observed": {"clauses": clauses}}


LO_SHU = [[2, 7, 6], [9, 5, 1], [4, 3, 8]]
DUERER = [[16, 3, 2, 13], [5, 10, 11, 8], [9, 6, 7, 12], [4, 15, 14, 1]]


def run_magic(c):
    n, power = c["n"], c["power"]
    pw = 1 if power is None else power
    feats = {"kind": "magic", "n": n, "power": pw}
    cqm = DG.magic_square(n) if power is None else DG.magic_square(n, power)
    order = [f"var_{i}_{j}" for i in range(n) for j in range(n)] + ["sum"]
    if set(cqm.variables) != set(order):
        return {"coq": None, "features": feats, "py_fail": f"variables {list(cqm.variables)!r}"}
    for v in order:
        if cqm.vartype(v) is not dimod.INTEGER or cqm.lower_bound(v) != 1:
            return {"coq": None, "features": feats, "py_fail": f"variable {v}: {cqm.vartype(v)}, lower bound {cqm.lower_bound(v)}"}
    py_fail = None
    if gen.observe(cqm.objective)["lin"] and any(F(b) != 0 for _, b in gen.observe(cqm.objective)["lin"]):
        py_fail = "magic_square has a non-zero objective"
    T = LabelTable(order)
    ccons = [f"({coq_obs(gen.observe(con.lhs), T)}, {SENSE[con.sense.value]}, {cq(F(con.rhs))})"
             for con in cqm.constraints.values()]
    rs = wlib.Rng(c["rseed"])
    squares = []
    base = {3: LO_SHU, 4: DUERER}.get(n)
    if base:
        squares += [base, [list(r) for r in zip(*base)], [r[::-1] for r in base]]
        if pw == 2:
            squares += [[[v * v for v in r] for r in base]]
    latin = [[(i + j) % n + 1 for j in range(n)] for i in range(n)]
    squares += [latin, [[1] * n for _ in range(n)], [[(2 * i + j) % n + 1 for j in range(n)] for i in range(n)]]
    for _k in range(10):
        squares.append([[rs.randint(1, 4) for _j in range(n)] for _i in range(n)])
    rows = []
    for sq in squares:
        line = sum(v ** pw for v in sq[0])
        for sv in {line, line + 1, sum(v ** pw for v in [r[0] for r in sq])}:
            vals = [v for r in sq for v in r] + [max(1, sv)]
            rows.append((vals, bool(cqm.check_feasible(dict(zip(order, vals))))))
    crow = clist([f"({clist([cz(v) for v in vals])}, {cbool(f)})" for vals, f in rows])
    coq = f"(CMagic {cnat(n)} {cnat(pw)} {clist(ccons)} {crow})"
    return {"coq": coq, "py_fail": py_fail, "features": feats, "nontrivial": n > 1,
            "observed": {"feasible_rows": sum(1 for _, f in rows if f), "rows": len(rows)}}


def run_qap(c):
    n = c["n"]
    D = [[F(v) for v in r] for r in c["D"]]
    Fm = [[F(v) for v in r] for r in c["F"]]
    feats = {"kind": "qap", "n": n}
    asym = any(D[i][j] != D[j][i] for i in range(n) for j in range(n))
    conv = (lambda M: np.array([[float(v) for v in r] for r in M])) if c["form"] == 'array' else \
           (lambda M: [[float(v) for v in r] for r in M])
    cqm = DG.quadratic_assignment(conv(D), conv(Fm))
    order = [f"x_{i}_{j}" for i in range(n) for j in range(n)]
    if set(cqm.variables) != set(order) or any(cqm.vartype(v) is not dimod.BINARY for v in cqm.variables):
        return {"coq": None, "features": feats, "py_fail": f"variables {list(cqm.variables)!r}, expected binary {order!r}"}
    if len(cqm.constraints) != 2 * n:
        return {"coq": None, "features": feats, "py_fail": f"{len(cqm.constraints)} constraints, expected {2 * n}"}
    py_fail = None
    # documented cost on every placement: sum over facilities i, k of flow[i][k] * distance[pi(i)][pi(k)]
    for perm in itertools.permutations(range(n)):
        sample = {f"x_{i}_{j}": int(perm[i] == j) for i in range(n) for j in range(n)}
        want = sum(Fm[i][k] * D[perm[i]][perm[k]] for i in range(n) for k in range(n))
        got = F(cqm.objective.energy(sample))
        if not cqm.check_feasible(sample) and py_fail is None:
            py_fail = f"placement {perm} is reported infeasible"
        if got != want and py_fail is None:
            py_fail = (f"quadratic_assignment({c['D']}, {c['F']}): placement {perm} has objective {got}, "
                       f"documented cost sum F[i][k]*D[pi(i)][pi(k)] = {want}")
            if asym:
                feats = {"qap_asymmetric": True}
    T = LabelTable(order)
    mat = lambda M: clist([clist([cq(v) for v in r]) for r in M])
    ccons = [f"({coq_obs(gen.observe(con.lhs), T)}, {SENSE[con.sense.value]}, {cq(F(con.rhs))})"
             for con in cqm.constraints.values()]
    N = n * n
    rows = all_rows(N) if N <= 4 else None
    if rows is None:
        rs = wlib.Rng(n * 7919 + sum(int(v * 2) for r in D for v in r) + 31 * sum(int(v) for r in Fm for v in r))
        rows = [tuple(int(perm[i] == j) for i in range(n) for j in range(n)) for perm in itertools.permutations(range(n))]
        rows += [tuple(1 if rs.random() < p else 0 for _ in range(N)) for p in (0.2, 0.35, 0.5) for _k in range(40)]
    crow = []
    for r in rows:
        sample = dict(zip(order, r))
        crow.append(f"({clist([cbool(b) for b in r])}, {cbool(bool(cqm.check_feasible(sample)))}, {cq(F(cqm.objective.energy(sample)))})")
    coq = f"(CQap {cnat(n)} {mat(Fm)} {mat(D)} {coq_obs(gen.observe(cqm.objective), T)} {clist(ccons)} {clist(crow)})"
    return {"coq": coq, "py_fail": py_fail, "features": feats, "nontrivial": n > 1}


def run_case(c):
    kind = c["kind"]
    if kind == 'qap':
        return run_qap(c)
    if kind == 'magic':
        return run_magic(c)
    if kind == 'qknap':
        return run_qknap(c)
    if kind == 'anticross':
        return run_anticross(c)
    if kind == 'sat':
        return run_sat(c)
    if kind in PYK.KINDS:
        PYK.LAST.clear()
        r = PYK.run_case(c)
        r.setdefault("features", {})
        r["features"].setdefault("kind", kind)
        if PYK.LAST.get("cqm") is not None and not r.get("py_fail"):
            r["coq"] = cqm_term(c, PYK.LAST)
        return r
    return {'gate': run_gate, 'mult': run_mult, 'multwire': run_multwire, 'comb': run_comb, 'mwis': run_mwis}[kind](c)


if __name__ == "__main__":
    wlib.main(gen_case, run_case)
