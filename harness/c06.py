PID = "C06"
WORKER = "w_c06"
HEADER = "From Coq Require Import List ZArith QArith Qcanon.\nFrom Dimod Require Import Base.Util Model.Poly Model.Sym Model.SymStore Model.ChkC06.\nImport ListNotations."
CHECK_FN = "check"
N_QUICK = 8000
N_THOROUGH = 120000
SHRINK_KEYS = []
SHARD = 150
RULE = ("random expression trees (depth <= 4) over a pool of 1-4 operands: Binary/Spin/Integer/Real variables built with the "
        "single, plural and array constructors (float64/float32/object dtype, explicit or default bounds, occasionally a "
        "clashing vartype or clashing bounds for a shared label), pre-built BQMs (three dtypes), QMs (two dtypes), CQM objective "
        "and constraint views, numbers (int, float, numpy scalars) on either side; operators + - * / unary -/+ ** quicksum sum "
        "and ndarray.dot, each binary operator also in its in-place form; after every operator all operands are re-observed; "
        "one case in eight is a comparison `a <= / >= / == b` (number on either side, occasionally models on both) handed to cqm.add_constraint, observing the stored lhs, sense and rhs; a failing in-place operator must leave its receiver unchanged; a case is non-trivial when the result is a model; distinct by canonical JSON of the case")
TRUSTED = ["model: coq/theories/Model/Poly.v, Sym.v, ChkC06.v (hand written, tied by this correspondence)",
           "float arithmetic of the implementation is exact on the generated dyadic data (not verified)"]
ASSUMPTIONS = ["the coefficients a model reports (linear, quadratic, offset) define its energy (that is property C01)",
               "IEEE-754 arithmetic is exact on the small dyadic coefficients generated (divisors are powers of two)",
               "the model is dtype agnostic: the result of an operator does not depend on the storage dtype of its operands"]
PARTIAL = []
