"""Worker-side scaffolding: runs inside the implementation's interpreter
(PYTHONPATH = scratch build of /repo's working tree)."""
import json
import sys
import traceback
import hashlib
import random
from fractions import Fraction


class Rng(random.Random):
    def dyadic(self, kmax=16, jmax=2):
        return Fraction(self.randint(-kmax, kmax), 2 ** self.randint(0, jmax))

    def chance(self, p):
        return self.random() < p


def cz(n):
    return f"({int(n)})%Z"


def cnat(n):
    return f"{int(n)}%nat"


def cq(x):
    fr = Fraction(x)
    return f"(qc ({fr.numerator}) {fr.denominator})"


def clist(xs):
    return "[" + "; ".join(xs) + "]"


def cbool(b):
    return "true" if b else "false"


def copt(x):
    return "None" if x is None else f"(Some {x})"


def cpair(a, b):
    return f"({a}, {b})"


def fr(x):
    """exact Fraction of a python/numpy number"""
    return Fraction(float(x)) if not isinstance(x, (int, Fraction)) else Fraction(x)


def frs(x):
    f = fr(x)
    return f"{f.numerator}/{f.denominator}" if f.denominator != 1 else str(f.numerator)


def main(gen_case, run_case):
    job = json.load(sys.stdin)
    import dimod, os
    # fail closed: the implementation under test must be the scratch build the driver prepared (first
    # PYTHONPATH entry), never another installed copy (e.g. after the scratch build was removed meanwhile)
    want = os.path.realpath(os.environ.get("PYTHONPATH", "").split(os.pathsep)[0] or ".")
    have = os.path.realpath(os.path.dirname(dimod.__file__))
    if not (have + os.sep).startswith(want + os.sep):
        sys.stderr.write(f"dimod imported from {have}, expected the scratch build under {want}\n")
        sys.exit(97)
    out = {"cases": [], "dimod_file": os.path.dirname(dimod.__file__)}
    if job["mode"] == "gen":
        cases = []
        for i in range(job["n"]):
            s = hashlib.sha256(f"{job['seed']}/{job['shard']}/{i}".encode()).digest()
            rng = Rng(int.from_bytes(s[:8], "big"))
            try:
                c = gen_case(rng, job.get("tier", "quick"))
            except Exception:
                c = {"gen_error": traceback.format_exc()}
            cases.append(c)
    else:
        cases = job["cases"]
    for c in cases:
        if "gen_error" in c:
            out["cases"].append({"case": c, "coq": None, "py_fail": "generator error: " + c["gen_error"],
                                 "nontrivial": False, "features": {}})
            continue
        try:
            r = run_case(c)
        except Exception:
            r = {"coq": None, "py_fail": "harness error: " + traceback.format_exc()}
        r.setdefault("coq", None)
        r.setdefault("py_fail", None)
        r.setdefault("nontrivial", True)
        r.setdefault("features", {})
        r.setdefault("kind", c.get("kind", "case"))
        r["case"] = c
        out["cases"].append(r)
    json.dump(out, sys.stdout, default=str)
