"""C15 worker: higher-order reduction.  Runs reduce_binary_polynomial / make_quadratic /
make_quadratic_cqm / HigherOrderComposite on the implementation and renders what it
returned as Coq `case` terms for Model/ChkC15.v.

Coverage map (clause of the property / entry point -> stream that reaches it):
  "every binary polynomial": how the polynomial is BUILT is part of the pipeline
      BinaryPolynomial(dict)                      all kinds (default)
      BinaryPolynomial(iterable) with the same monomial under several keys / repeated entries / list keys,
      BinaryPolynomial(polynomial), copy()        kind 'ctor' (forms iter, copy) ; `via` iter/copy in reduce/mq/cqm/hoc
      from_hubo(H[, offset]) with a () key in H, keys with repeated variables, offset absent/None/0/value
                                                  kind 'ctor' form hubo ; `via` ctor (BINARY) in reduce/mq/cqm/hoc
      from_hising(h, J[, offset]) with single-variable / cancelling / () keys in J
                                                  kind 'ctor' form hising ; `via` ctor (SPIN) in reduce/mq/cqm/hoc
      to_hubo / to_hising of either vartype       kind 'ctor' (back = own vartype, cross = through to_binary / to_spin)
      raw dict + vartype string                   mq / cqm with an even number of terms (use_poly False)
  degree <= 2 and exactness on consistent assignments: reduce_binary_polynomial -> 'reduce' ; make_quadratic -> 'mq'
      (bqm= unset / same vartype / other vartype, vartype= given or not) ; make_quadratic_cqm -> 'cqm' (cqm= unset / set)
  penalty >= 0 (AND gate, spin product with auxiliary): theorems over the tables translated from the source ; 'mq'
      compares every coefficient
  HigherOrderComposite reports polynomial energies: 'hoc' (sample_poly / sample_hising / sample_hubo ; keep / discard
      in {unset, True, False} ; children returning float64 / float32 / int energies, no rows, only the first rows)
  overlap pattern of terms / repeated variables / constants / label kinds: rand_poly (shared core, multiplicities up
      to 6, constants, integer labels with their str() forms, labels colliding with invented names)"""
import itertools
from fractions import Fraction
import numpy as np
import dimod
from dimod.higherorder.utils import reduce_binary_polynomial

import wlib
from wlib import cq, clist, cnat, cpair, cbool
import gen
from gen import F, enc_label, dec_label, LabelTable, coq_obs

KINDS = ['reduce', 'reduce', 'mq', 'mq', 'cqm', 'hoc', 'ctor']
STRENGTHS = ['1/2', '1', '2', '3']
# labels chosen to collide with the names the reduction invents ('u*v', 'auxu,v')
TRICKY = ['0*1', '1*0', 'a*b', 'b*a', 'aux0,1', 'aux1,0', 'auxa,b', '_0*1', '0*1*2', 'auxa,b*c',
          # an auxiliary name 'aux{u},{v}' with v a product equals the product name of ('aux{u},x', 'y') when v = 'x*y'
          'auxb,a', 'c,a', 'auxb,c', 'a,b', 'auxc,a', 'b,c', 'auxa,c', 'b,a', 'auxc', 'auxb', 'auxa']
POOL = [0, 1, 2, 3, 'a', 'b', 'c', ('t', 1), ('t', 2), 'x0', 5, 7]


def rand_poly(rng, tier, nmax=6, dmax=5, tmax=7, namesakes=3, mirror_ok=True):
    n = rng.randint(3, nmax)
    pool = list(POOL)
    rng.shuffle(pool)
    labels = pool[:n]
    if rng.random() < 0.3:
        for _k in range(rng.choice([1, 1, 2, 2, 3])):
            x = rng.choice(TRICKY)
            if x not in labels:
                labels[rng.randrange(n)] = x
    labels = list(dict.fromkeys(labels))
    # integer labels together with their string forms: 0 and '0' are different variables that print alike, so
    # the names invented for the pairs (0, 1) and ('0', '1') ('0*1', 'aux0,1') coincide before de-duplication
    mirror = mirror_ok and rng.random() < 0.22
    if mirror:
        labels = rng.sample([0, 1, 2, 3, 5, 7, -1, 10], min(len(labels), rng.randint(3, 4)))
    n = len(labels)
    vartype = rng.choice(['BINARY', 'SPIN', 'SPIN'] if mirror else ['BINARY', 'SPIN'])
    terms = []
    if rng.random() < 0.5:
        terms.append([[], str(rng.dyadic(8, 2))])
    nt = rng.randint(1, tmax)
    # a core shared by several terms produces overlapping pairs
    core = rng.sample(labels, min(n, rng.randint(2, 3)))
    for _ in range(nt):
        k = rng.randint(1, min(dmax, n))
        if _ == 0 and rng.random() < 0.9:
            k = rng.randint(min(3, n), min(dmax, n))
        if rng.random() < 0.5 and k >= len(core):
            rest = [l for l in labels if l not in core]
            t = core + rng.sample(rest, min(len(rest), k - len(core)))
        else:
            t = rng.sample(labels, k)
        rng.shuffle(t)
        if rng.random() < 0.25:     # repeated variables: multiplicity 2..6 (x^k = x ; s^k = s or 1 by parity)
            for _r in range(1 if rng.random() < 0.7 else 2):
                x = rng.choice(t)
                for _e in range(rng.choice([1, 1, 2, 3, 3, 4, 5])):
                    t.insert(rng.randrange(len(t) + 1), x)
        b = rng.dyadic(8, 2)
        if b == 0 and rng.random() < 0.7:
            b = Fraction(1)
        terms.append([[enc_label(x) for x in t], str(b)])
    if mirror:
        for t, _b in list(terms):
            if t and rng.random() < 0.85:
                terms.append([[str(x) for x in t], str(rng.dyadic(8, 2) or Fraction(1))])
    # variables that carry the very names the reduction invents for a pair of some higher-order term
    # ('u*v', 'v*u', '_u*v', 'auxu,v', ...) but occur only in terms of degree <= 2 - e.g. the output of an
    # earlier reduction fed back in together with new higher-order terms
    if namesakes and rng.random() < 0.4:
        pairs = []
        for t, _b in terms:
            vs = list(dict.fromkeys(dec_label(x) for x in t))
            if len(vs) >= 3:
                pairs += [(vs[i], vs[j]) for i in range(len(vs)) for j in range(i + 1, len(vs))]
        rng.shuffle(pairs)
        names = []
        for u, v in pairs[:rng.randint(1, namesakes)]:
            both = rng.random() < 0.7
            form = rng.choice(['{}*{}', '{}*{}', '{}*{}', '_{}*{}', 'aux{},{}'])
            names.append(form.format(u, v))
            if both:
                names.append(form.format(v, u))
        names = [x for x in dict.fromkeys(names) if x not in labels][:2 * namesakes]
        for x in names:
            if rng.random() < 0.6:
                terms.append([[x], str(rng.dyadic(8, 2) or Fraction(1))])
            if rng.random() < 0.6:
                terms.append([[x, enc_label(rng.choice(labels))], str(rng.dyadic(8, 2) or Fraction(1))])
            elif not any(t == [x] for t, _b in terms):
                terms.append([[x], "1"])
    # drop exact duplicate keys (a python dict cannot hold them)
    seen, out = set(), []
    for t, b in terms:
        k = repr(t)
        if k not in seen:
            seen.add(k)
            out.append([t, b])
    return vartype, out


def gen_via(rng, vartype, terms):
    """how the polynomial handed to the pipeline is built (None: BinaryPolynomial(dict, vartype))"""
    x = rng.random()
    if x < 0.62:
        return None
    if x < 0.82:
        # from_hubo / from_hising; the offset comes ON TOP of a constant the terms may already hold
        return {"form": "ctor", "off": rng.choice([None, "0", str(rng.dyadic(8, 2) or Fraction(3)), str(rng.dyadic(8, 2) or Fraction(1))])}
    if x < 0.94:
        return {"form": "iter", "dups": [[rng.randrange(64), str(rng.dyadic(8, 2) or Fraction(1)), rng.choice([True, False])]
                                         for _ in range(rng.randint(1, 3))]}
    return {"form": "copy"}


def gen_ctor(rng, tier):
    """the constructors / exporters of BinaryPolynomial on their own"""
    vartype, terms = rand_poly(rng, tier, nmax=5, dmax=4, tmax=5, namesakes=0, mirror_ok=False)
    if rng.random() < 0.1:
        terms = []
    if rng.random() < 0.08:
        terms = [t for t in terms if not t[0]][:1]
    labels = list(dict.fromkeys(x_ for t, _b in terms for x_ in map(repr, t)))
    bias = lambda: str(rng.dyadic(8, 2) or Fraction(1))
    extra = []
    for t, _b in terms:
        if len(t) >= 2 and rng.random() < 0.35:         # the same monomial under another key
            u = list(t)
            rng.shuffle(u)
            if rng.random() < 0.4:
                u.insert(rng.randrange(len(u) + 1), rng.choice(u))
            extra.append([u, bias()])
        if t and rng.random() < 0.15:                    # a key whose variables cancel (SPIN) / collapse (BINARY)
            extra.append([[t[0], t[0]], bias()])
    if rng.random() < 0.35 and not any(not t for t, _b in terms):
        extra.append([[], bias()])
    terms = terms + extra
    rng.shuffle(terms)
    seen, out = set(), []
    form = rng.choice(['dict', 'iter', 'iter', 'copy', 'hubo', 'hubo', 'hising', 'hising'])
    if form == 'hubo':
        vartype = 'BINARY'
    if form == 'hising':
        vartype = 'SPIN'
    for t, b in terms:
        k = repr(t)
        if k not in seen or (form == 'iter' and rng.random() < 0.5):
            seen.add(k)
            out.append([t, b])
    c = {"kind": "ctor", "vartype": vartype, "form": form, "terms": out, "aseed": rng.randrange(1 << 30)}
    if form in ('hubo', 'hising'):
        c["off_mode"] = rng.choice(['absent', 'none', 'val', 'val', 'val'])
        c["off"] = rng.choice(["0", bias(), bias()]) if c["off_mode"] == 'val' else None
    if form == 'iter':
        c["keyforms"] = [rng.choice(['tuple', 'list', 'frozenset', 'iter']) for _ in out]
    if form == 'copy':
        c["copy_how"] = rng.choice(['copy', 'ctor', 'other_vartype'])
    return c


def gen_case(rng, tier):
    kind = rng.choice(KINDS)
    big = tier == 'thorough'
    if kind == 'ctor':
        return gen_ctor(rng, tier)
    if kind == 'hoc':
        vartype, terms = rand_poly(rng, tier, nmax=4, dmax=4, tmax=4, namesakes=1, mirror_ok=False)
        x = rng.random()
        if x < 0.06:         # constant only: the quadratic model has no variable, the child returns no row
            terms = [[[], str(rng.dyadic(8, 2))]]
        elif x < 0.10:       # every variable cancels (SPIN) / only low-order terms
            v = enc_label(rng.choice(POOL))
            terms = [[[v, v], str(rng.dyadic(8, 2))]] + ([[[], "3/2"]] if rng.random() < 0.5 else [])
        elif x < 0.14:
            terms = [t for t in terms if len(set(map(repr, t[0]))) <= 2] or [[[], "1"]]
        # 'empty' / 'head': a child that returns no row / only its first rows
        # 'init': a child that accepts initial_state (expand_initial_state: products and minimising auxiliaries)
        child = rng.choice(['f64', 'f64', 'f64', 'f32', 'int', 'int', 'empty', 'head', 'init', 'init'])
        if child == 'f32':
            # a constant that float64 holds exactly and float32 does not
            terms = [t for t in terms if t[0]] + [[[], str(2 ** 24 + 1 + rng.randint(0, 6) * 2)]]
        return {"kind": kind, "vartype": vartype, "terms": terms, "child": child, "via": gen_via(rng, vartype, terms),
                "api": rng.choice(['poly', 'poly', 'hising' if vartype == 'SPIN' else 'hubo']),
                "strength": rng.choice(STRENGTHS),
                "keep": rng.choice([True, False, None]), "discard": rng.choice([True, False, None]),
                "rowseed": rng.randrange(1 << 30)}
    vartype, terms = rand_poly(rng, tier, nmax=8 if big else 6, dmax=6 if big else 5, tmax=10 if big else 7)
    c = {"kind": kind, "vartype": vartype, "terms": terms, "via": gen_via(rng, vartype, terms)}
    if kind == 'mq':
        c["strength"] = rng.choice(STRENGTHS)
    if kind in ('mq', 'cqm') and rng.random() < 0.55:
        # a model supplied through bqm= / cqm=: biases on the polynomial's variables (couplings on pairs that
        # the reduction may turn into product variables, and on others), on extra variables, an offset
        labs = [x for t, _b in terms for x in t]
        uniq = []
        for x in labs:
            if x not in uniq:
                uniq.append(x)
        uniq += rng.sample(['e1', 'e2', 9], rng.randint(0, 2))
        lin = [[x, str(rng.dyadic(8, 1))] for x in uniq if rng.random() < 0.6]
        quad = [[uniq[i], uniq[j], str(rng.dyadic(8, 1) or Fraction(1))] for i in range(len(uniq)) for j in range(i)
                if rng.random() < 0.5]
        if rng.random() < 0.2:
            # a supplied model WITHOUT variables that carries only a constant (len(model) == 0, so any truth-value
            # test of the argument takes it for 'not supplied'); round-6 miss C15 r6m1
            lin, quad = [], []
        other = 'SPIN' if vartype == 'BINARY' else 'BINARY'
        bvt = vartype if kind == 'cqm' or rng.random() < 0.5 else other
        c["base"] = {"vartype": bvt, "lin": lin, "quad": quad,
                     "off": str(rng.dyadic(8, 1) or Fraction(3, 2)) if not lin and not quad else str(rng.dyadic(8, 1)),
                     "pass_vartype": True if bvt != vartype else rng.choice([True, False])}
    if kind == 'reduce':
        c["aseed"] = rng.randrange(1 << 30)
    return c


class CastChild(dimod.Sampler):
    """ExactSolver whose sample set carries its energies in another dtype (float32 / integers), as
    samplers that evaluate in reduced precision or return placeholder energies do"""
    parameters = None
    properties = None

    def __init__(self, dtype, head=None):
        self.dtype = dtype
        self.head = head
        self.parameters = {}
        self.properties = {}

    def sample(self, bqm, **kwargs):
        ss = dimod.ExactSolver().sample(bqm)
        rec = ss.record
        if self.head is not None:
            rec = rec[:self.head]
        return dimod.SampleSet.from_samples((rec.sample, list(ss.variables)), energy=rec.energy.astype(self.dtype),
                                            vartype=ss.vartype, num_occurrences=rec.num_occurrences)


class InitChild(dimod.Sampler):
    """a child sampler that accepts initial_state and returns exactly that state with the energy of the model it was given"""
    parameters = None
    properties = None

    def __init__(self):
        self.parameters = {"initial_state": []}
        self.properties = {}
        self.got = None

    def sample(self, bqm, initial_state=None, **kwargs):
        self.got = None if initial_state is None else dict(initial_state)
        return dimod.SampleSet.from_samples_bqm(initial_state, bqm)


class Recorder(dimod.Sampler):
    """passes everything to the wrapped sampler and keeps the sample set it returned"""
    parameters = None
    properties = None

    def __init__(self, inner):
        self.inner = inner
        self.parameters = dict(inner.parameters)
        self.properties = dict(inner.properties)
        self.last = None

    def sample(self, bqm, **kwargs):
        self.last = self.inner.sample(bqm, **kwargs)
        return self.last


def build_base(bd):
    lin = {dec_label(x): float(F(b)) for x, b in bd["lin"]}
    quad = {(dec_label(u), dec_label(v)): float(F(b)) for u, v, b in bd["quad"]}
    return dimod.BinaryQuadraticModel(lin, quad, float(F(bd["off"])), gen.VT[bd["vartype"]])


def raw_dict(c):
    return {tuple(dec_label(x) for x in t): float(F(b)) for t, b in c["terms"]}


def build_poly(c, raw, vt):
    """the polynomial handed to the pipeline, and the list of (term, bias) whose sum it documents to be"""
    via = c.get("via")
    raw_items = [(list(k), b) for k, b in raw.items()]
    if not via:
        return dimod.BinaryPolynomial(raw, vt), raw_items
    if via["form"] == 'ctor':
        off = None if via.get("off") is None else F(via["off"])
        okw = () if off is None else (float(off),)
        extra = [] if off is None else [([], off)]
        if vt == 'BINARY':
            return dimod.BinaryPolynomial.from_hubo(dict(raw), *okw), raw_items + extra
        h, J = {}, {}
        for k, b in raw.items():
            if len(k) == 1 and k[0] not in h:
                h[k[0]] = b
            else:
                J[k] = b
        return dimod.BinaryPolynomial.from_hising(h, J, *okw), raw_items + extra
    if via["form"] == 'iter':
        keys = [k for k in raw if len(k) >= 1] or list(raw)
        dups = []
        for i, b, rev in via["dups"]:
            k = list(keys[i % len(keys)])
            dups.append((list(reversed(k)) if rev else k, float(F(b))))
        return dimod.BinaryPolynomial(list(raw.items()) + [(tuple(k), b) for k, b in dups], vt), raw_items + dups
    return dimod.BinaryPolynomial(raw, vt).copy(), raw_items


def run_ctor(c):
    BP = dimod.BinaryPolynomial
    vt, form = c["vartype"], c["form"]
    T = LabelTable()
    terms = [([dec_label(x) for x in t], F(b)) for t, b in c["terms"]]
    feats = {"kind": "ctor", "form": form, "vartype": vt}
    py_fail = None
    extra_coq = []
    off = None
    if form in ('hubo', 'hising'):
        feats["off_mode"] = c["off_mode"]
        off = F(c["off"]) if c["off_mode"] == 'val' else None
        okw = {'absent': (), 'none': (None,), 'val': (float(off) if off is not None else None,)}[c["off_mode"]]
    orig = list(dict.fromkeys(x for t, _b in terms for x in t))
    for x in orig:
        T.idx(x)
    if form == 'hubo':
        H = {tuple(t): float(b) for t, b in terms}
        snapshot = dict(H)
        poly = BP.from_hubo(H, *okw)
        if H != snapshot:
            py_fail = "from_hubo modified the dictionary it was given"
        ck = f"(KHubo {hp(T, terms)} {wlib.copt(None if off is None else cq(off))})"
        feats["const_in_H"] = any(not t for t, _b in terms)
    elif form == 'hising':
        h, J, hl, Jl = {}, {}, [], []
        for t, b in terms:
            if len(t) == 1 and t[0] not in h and len(hl) % 3 != 2:
                h[t[0]] = float(b)
                hl.append((t[0], b))
            else:
                J[tuple(t)] = float(b)
                Jl.append((t, b))
        poly = BP.from_hising(h, J, *okw)
        ch = clist([cpair(cnat(T.idx(v)), cq(b)) for v, b in hl])
        ck = f"(KHising {ch} {hp(T, Jl)} {wlib.copt(None if off is None else cq(off))})"
        feats["lin_in_J"] = any(len(t) == 1 for t, _b in Jl)
    elif form == 'dict':
        poly = BP({tuple(t): float(b) for t, b in terms}, vt)
        ck = f"(KInit {vt} {hp(T, terms)})"
    elif form == 'iter':
        mk = {'tuple': tuple, 'list': list, 'iter': tuple,
              'frozenset': lambda t: frozenset(t) if len(set(map(repr, t))) == len(t) else tuple(t)}
        pairs = [(mk[kf](t), float(b)) for (t, b), kf in zip(terms, c.get("keyforms") or ['tuple'] * len(terms))]
        poly = BP(iter(pairs), vt)
        ck = f"(KInit {vt} {hp(T, terms)})"
    else:
        how = c.get("copy_how", "copy")
        inner = BP({tuple(t): float(b) for t, b in terms}, vt)
        inner_items = [(list(k), F(b)) for k, b in inner.items()]
        if how == 'copy':
            poly = inner.copy()
        elif how == 'ctor':
            poly = BP(inner, vt)
        else:
            # the other vartype and back: to_spin / to_binary must give the same function
            poly = inner.to_spin(copy=True).to_binary() if vt == 'BINARY' else inner.to_binary(copy=True).to_spin()
        feats["copy_how"] = how
        if poly is inner or poly._terms is inner._terms:
            py_fail = "the copy shares its terms with the original"
        if how == 'other_vartype':
            # only the function is documented to survive: energies are compared (in Coq) against the terms given
            ck = None
        else:
            ck = f"(KInit {vt} {hp(T, inner_items)})"
            extra_coq.append(f"(CInput {vt} {hp(T, terms)} {hp(T, inner_items)})")
    if poly.vartype is not gen.VT[vt]:
        py_fail = f"vartype of the polynomial is {poly.vartype}"
    before = dict(poly._terms)
    items = [(list(k), F(b)) for k, b in poly.items()]
    h2, J2, o2 = poly.to_hising()
    H2, o3 = poly.to_hubo()
    if dict(poly._terms) != before:
        py_fail = "to_hising / to_hubo modified the polynomial"
    if any(len(k) == 0 for k in H2):
        py_fail = "to_hubo emitted a constant term inside H"
    if any(len(k) < 2 for k in J2):
        py_fail = "to_hising emitted a term of degree < 2 inside J"
    ising = ([([v], F(b)) for v, b in h2.items()] + [(list(k), F(b)) for k, b in J2.items()], F(o2))
    hubo = ([(list(k), F(b)) for k, b in H2.items()], F(o3))
    back, cross = (hubo, ising) if vt == 'BINARY' else (ising, hubo)
    values = (0, 1) if vt == 'BINARY' else (-1, 1)
    rs = wlib.Rng(c["aseed"])
    if len(orig) <= 4:
        assigns = list(itertools.product(values, repeat=len(orig)))
    else:
        assigns = [tuple(rs.choice(values) for _ in orig) for _ in range(12)]
    ca = clist([clist([cpair(cnat(T.idx(l)), cq(x)) for l, x in zip(orig, a)]) for a in assigns])
    pr = lambda tb: f"({hp(T, tb[0])}, {cq(tb[1])})"
    if ck is None:
        coq = f"(CFun {vt} {hp(T, terms)} {hp(T, items)} {ca})"
    else:
        coq = f"(CCtor {ck} {hp(T, items)} {pr(back)} {pr(cross)} {ca})"
    feats["nterms"] = len(terms)
    return {"coq": coq, "extra_coq": extra_coq, "py_fail": py_fail, "features": feats,
            "nontrivial": len(terms) > 0,
            "observed": {"poly": repr(poly), "to_hising": repr((h2, J2, o2)), "to_hubo": repr((H2, o3))}}


def hp(T, items):
    return clist([cpair(clist([cnat(T.idx(x)) for x in k]), cq(F(b))) for k, b in items])


def unpair(pair):
    u, v = pair
    return u, v


def run_case(c):
    kind = c["kind"]
    if kind == 'ctor':
        return run_ctor(c)
    vt = c["vartype"]
    raw = raw_dict(c)
    T = LabelTable()
    raw_items = [(list(k), b) for k, b in raw.items()]
    feats = {"kind": kind, "vartype": vt,
             "maxdeg": max((len(set(k)) for k in raw), default=0)}
    values = (0, 1) if vt == 'BINARY' else (-1, 1)
    py_fail = None
    if c.get("via"):
        feats["via"] = c["via"]["form"] + ("+off" if c["via"].get("off") is not None else "")
    if kind == 'reduce':
        poly, raw_items = build_poly(c, raw, vt)
        items = [(list(k), b) for k, b in poly.items()]
        reduced, constraints = reduce_binary_polynomial(poly)
        cons = []
        for pair, p in constraints:
            if len(pair) != 2:
                py_fail = f"constraint over {set(pair)!r} is not a pair"
                break
            u, v = unpair(pair)
            cons.append((u, v, p))
        for x in poly.variables:
            T.idx(x)
        orig = list(poly.variables)
        for k in raw:                      # variables that cancel (s*s = 1) still need a value
            for x in k:
                if x not in orig:
                    orig.append(x)
                    T.idx(x)
        rs = wlib.Rng(c["aseed"])
        if len(orig) <= 4:
            assigns = list(itertools.product(values, repeat=len(orig)))
        else:
            assigns = [tuple(rs.choice(values) for _ in orig) for _ in range(12)]
        ca = clist([clist([cpair(cnat(T.idx(l)), cq(x)) for l, x in zip(orig, a)]) for a in assigns])
        ccons = clist([f"({cnat(T.idx(u))}, {cnat(T.idx(v))}, {cnat(T.idx(p))})" for u, v, p in cons])
        coq = f"(CReduce {vt} {hp(T, raw_items)} {hp(T, items)} {hp(T, [(list(k), b) for k, b in reduced])} {ccons} {ca})"
        feats["ncons"] = len(cons)
        return {"coq": coq, "py_fail": py_fail, "features": feats, "nontrivial": len(cons) > 0,
                "observed": {"reduced": repr(reduced), "constraints": repr(constraints)}}
    if kind == 'mq':
        s = F(c["strength"])
        poly, raw_items = build_poly(c, raw, vt)
        items = [(list(k), b) for k, b in poly.items()]
        use_poly = len(c["terms"]) % 2 == 0 or bool(c.get("via"))
        base, base_obs, cbase = None, None, "None"
        if c.get("base"):
            bd = c["base"]
            base = build_base(bd)
            base_obs = gen.observe(base)
            snapshot = base.copy()
            kw = {"bqm": base}
            if bd["pass_vartype"]:
                kw["vartype"] = gen.VT[vt] if use_poly else vt
            bqm = dimod.make_quadratic(poly if use_poly else raw, float(s), **kw)
            if bd["pass_vartype"]:
                if bqm is base or not base.is_equal(snapshot) or list(base.variables) != list(snapshot.variables):
                    py_fail = "make_quadratic(vartype=..., bqm=...) modified the model it was given"
            elif bqm is not base:
                py_fail = "make_quadratic(bqm=...) without vartype did not add to the model it was given"
        else:
            bqm = dimod.make_quadratic(poly if use_poly else raw, float(s), gen.VT[vt] if use_poly else vt)
        if bqm.vartype is not gen.VT[vt]:
            py_fail = f"vartype of the result is {bqm.vartype}"
        red = bqm.info['reduction']
        cons = []
        for (u, v), d in red.items():
            cons.append((u, v, d['product'], d.get('auxiliary')))
            if (vt == 'SPIN') != ('auxiliary' in d):
                py_fail = "auxiliary variable recorded for BINARY / missing for SPIN"
        if {p for _, _, p, _ in cons} & {w for _, _, _, w in cons if w is not None}:
            feats = {"aux_product_collision": True}      # one label serves as a product and as an auxiliary variable
        for x in poly.variables:
            T.idx(x)
        if base_obs is not None:
            cbase = f"(Some ({c['base']['vartype']}, {coq_obs(base_obs, T)}))"
        ccons = clist([f"({cnat(T.idx(u))}, {cnat(T.idx(v))}, {cnat(T.idx(p))}, {cnat(T.idx(w) if w is not None else 0)})"
                       for u, v, p, w in cons])
        o = gen.observe(bqm)
        cobs = coq_obs(o, T)
        expect_vars = set(poly.variables) | {p for _, _, p, _ in cons} | {w for _, _, _, w in cons if w is not None}
        if base_obs is not None:
            expect_vars |= {dec_label(x) for x in base_obs["vars"]}
            feats["base"] = ("same" if c["base"]["vartype"] == vt else "other") + ("+vt" if c["base"]["pass_vartype"] else "")
        if set(bqm.variables) != expect_vars:
            py_fail = f"variables of the BQM {set(bqm.variables)!r} differ from original+product+auxiliary {expect_vars!r}"
        coq = f"(CMq {vt} {hp(T, raw_items)} {hp(T, items)} {cq(s)} {ccons} {cnat(len(T))} {cbase} {cobs})"
        feats["ncons"] = len(cons)
        return {"coq": coq, "py_fail": py_fail, "features": feats, "nontrivial": len(cons) > 0,
                "observed": {"bqm": o, "reduction": repr(red)}}
    if kind == 'cqm':
        poly, raw_items = build_poly(c, raw, vt)
        items = [(list(k), b) for k, b in poly.items()]
        use_poly = len(c["terms"]) % 2 == 0 or bool(c.get("via"))
        base_obs, cbase = None, "None"
        if c.get("base"):
            base_cqm = dimod.ConstrainedQuadraticModel()
            base_cqm.set_objective(build_base(c["base"]))
            base_obs = gen.observe(base_cqm.objective)
            cqm = dimod.make_quadratic_cqm(poly if use_poly else raw, None if use_poly else vt, cqm=base_cqm)
            if len(base_cqm.variables) and cqm is not base_cqm:
                py_fail = "make_quadratic_cqm(cqm=...) did not add to the model it was given"
            feats["base"] = "cqm"
        else:
            cqm = dimod.make_quadratic_cqm(poly if use_poly else raw, None if use_poly else vt)
        for x in poly.variables:
            T.idx(x)
        if base_obs is not None:
            cbase = f"(Some {coq_obs(base_obs, T)})"
        cons, cobs = [], []
        for lab, con in cqm.constraints.items():
            lhs = con.lhs
            quad = list(lhs.quadratic.items())
            lin = [(v, b) for v, b in lhs.linear.items() if b != 0]
            if len(quad) != 1 or len(lin) != 1:
                py_fail = f"constraint {lab!r} is not of the form u*v - p == 0: {con!r}"
                continue
            (u, v), _ = quad[0]
            p = lin[0][0]
            cons.append((u, v, p))
            if any(cqm.vartype(x) is not gen.VT[vt] for x in (u, v, p)):
                py_fail = f"constraint {lab!r} has a variable of the wrong vartype"
            o = gen.observe(lhs)
            cobs.append(f"({coq_obs(o, T)}, {cbool(con.sense.value == '==')}, {cq(F(con.rhs))})")
        for x in cqm.objective.variables:
            if cqm.vartype(x) is not gen.VT[vt]:
                py_fail = f"objective variable {x!r} has vartype {cqm.vartype(x)}"
        oo = gen.observe(cqm.objective)
        ccons = clist([f"({cnat(T.idx(u))}, {cnat(T.idx(v))}, {cnat(T.idx(p))})" for u, v, p in cons])
        cobj = coq_obs(oo, T)
        coq = f"(CCqm {vt} {hp(T, raw_items)} {hp(T, items)} {ccons} {cnat(len(T))} {cbase} {cobj} {clist(cobs)})"
        feats["ncons"] = len(cons)
        return {"coq": coq, "py_fail": py_fail, "features": feats, "nontrivial": len(cons) > 0,
                "observed": {"objective": oo, "constraints": [repr(x) for x in cqm.constraints.values()]}}
    # hoc
    s = F(c["strength"])
    kw = {"penalty_strength": float(s)}
    if c["keep"] is not None:
        kw["keep_penalty_variables"] = c["keep"]
    if c["discard"] is not None:
        kw["discard_unsatisfied"] = c["discard"]
    keep = bool(c["keep"])            # default False
    discard = bool(c["discard"])      # default False
    child = c.get("child", "f64")
    nvars0 = len(dimod.BinaryPolynomial(raw, vt).variables)
    if child == 'init' and nvars0 == 0:
        child = 'f64'
    partial = child in ('empty', 'head', 'init')
    if child == 'init':
        inner = InitChild()
        rs0 = wlib.Rng(c["rowseed"] + 17)
        init_state = {v: rs0.choice(values) for v in sorted(dimod.BinaryPolynomial(raw, vt).variables, key=repr)}
        kw["initial_state"] = dict(init_state)
    elif child == 'f64':
        inner = dimod.ExactSolver()
    elif partial:
        inner = CastChild(np.float64, head=0 if child == 'empty' else 1 + c["rowseed"] % 5)
    else:
        inner = CastChild(np.float32 if child == 'f32' else np.int64)
    recorder = Recorder(inner)
    sampler = dimod.HigherOrderComposite(recorder)
    api = 'poly' if c.get("via") else c["api"]
    poly0, spec_items = build_poly(c, raw, vt)
    feats.update(api=api, keep=c["keep"], discard=c["discard"], child=child)
    nvars0 = len(dimod.BinaryPolynomial(raw, vt).variables)
    try:
        if api == 'poly':
            ss = sampler.sample_poly(poly0, **kw)
        elif api == 'hising':
            h = {k[0]: b for k, b in raw.items() if len(k) == 1}
            J = {k: b for k, b in raw.items() if len(k) != 1}
            ss = sampler.sample_hising(h, J, **kw)
        else:
            ss = sampler.sample_hubo(dict(raw), **kw)
    except Exception as e:
        feats = {"kind": kind, "hoc_raises": type(e).__name__}
        if nvars0 == 0 and discard:
            feats = {"hoc_empty_discard": True}
        return {"coq": None, "py_fail": f"HigherOrderComposite raised {type(e).__name__}: {e}", "features": feats,
                "nontrivial": False}
    poly = dimod.BinaryPolynomial(raw, vt)
    if c.get("via"):
        # the rows are evaluated on `poly` (the plain polynomial of the terms plus the offset): the polynomial that was
        # actually sampled must be that one
        # (both are tied to the terms by CInput below)
        poly = dimod.BinaryPolynomial([(tuple(k_), float(b_)) for k_, b_ in spec_items], vt)
    orig = list(poly.variables)
    red = ss.info.get('reduction', {})
    cons = [(u, v, d['product']) for (u, v), d in red.items()]
    naux = sum(1 for d in red.values() if 'auxiliary' in d)
    variables = list(ss.variables)
    for x in orig:
        T.idx(x)
    if ss.vartype is not gen.VT[vt]:
        py_fail = f"sample set vartype {ss.vartype}"
    extra = set(variables) - set(orig)
    if partial and (len(ss) > (0 if child == 'empty' else 1 + c["rowseed"] % 5)):
        py_fail = f"{len(ss)} rows returned although the child returned fewer"
    if not keep and extra:
        py_fail = f"penalty variables {extra!r} kept although keep_penalty_variables is false"
    if keep and set(variables) != set(orig) | {p for _, _, p in cons} | {d['auxiliary'] for d in red.values() if 'auxiliary' in d}:
        py_fail = f"columns {variables!r} are not original+product+auxiliary variables"
    if set(orig) - set(variables):
        py_fail = f"original variables {set(orig) - set(variables)!r} missing from the sample set"
    rec = ss.record
    rows = []
    for i in range(len(rec)):
        vals = [int(x) for x in rec.sample[i]]
        rows.append((vals, F(rec.energy[i]), bool(rec.penalty_satisfaction[i])))
    # exact python-side evaluation of every row (Coq re-evaluates a sample of them)
    col = {v: j for j, v in enumerate(variables)}
    per_orig = {}
    for vals, en, flag in rows:
        e = Fraction(0)
        for k, b in poly.items():
            t = F(b)
            for x in k:
                t *= vals[col[x]]
            e += t
        if e != en and py_fail is None:
            py_fail = f"row {dict(zip(map(str, variables), vals))} reported energy {en}, polynomial energy {e}"
        if any(x not in values for x in vals) and py_fail is None:
            py_fail = f"row with a value outside {values}"
        key = tuple(vals[col[x]] for x in orig)
        per_orig.setdefault(key, [0, 0])
        per_orig[key][0] += 1
        per_orig[key][1] += int(flag)
    # ExactSolver enumerates every assignment of the quadratic model exactly once
    nprod = len(cons)
    want_all = 2 ** (nprod + naux)
    want_sat = 2 ** naux
    # (a variable-free quadratic model has no assignment for ExactSolver to enumerate: no rows at all)
    for key in (itertools.product(values, repeat=len(orig)) if (variables or rows) and not partial else []):
        got = per_orig.get(key, [0, 0])
        exp = [want_sat if discard else want_all, want_sat]
        if got != exp and py_fail is None:
            py_fail = (f"assignment {dict(zip(map(str, orig), key))} of the polynomial's variables appears {got[0]} times "
                       f"({got[1]} flagged satisfied), expected {exp[0]} ({exp[1]})")
    rs = wlib.Rng(c["rowseed"])
    pick = rows if len(rows) <= 48 else rs.sample(rows, 48)
    crow = clist([f"({clist([cq(x) for x in vals])}, {cq(en)}, {cbool(flag)})" for vals, en, flag in pick])
    ccons = clist([f"({cnat(T.idx(u))}, {cnat(T.idx(v))}, {cnat(T.idx(p))})" for u, v, p in cons])
    cvars = clist([cnat(T.idx(v)) for v in variables])
    coq = f"(CHoc {hp(T, [(list(k), b) for k, b in poly.items()])} {ccons} {cbool(keep)} {cvars} {crow})"
    feats["ncons"] = nprod
    extra = []
    if child == 'init':
        got = inner.got
        if got is None:
            py_fail = py_fail or "the child sampler did not receive an initial_state"
        else:
            if kw["initial_state"] != init_state:
                py_fail = py_fail or "sample_poly modified the initial_state it was given"
            cons4 = [(u, v, d['product'], d.get('auxiliary')) for (u, v), d in red.items()]
            for x in got:
                T.idx(x)
            cc4 = clist([f"({cnat(T.idx(u))}, {cnat(T.idx(v))}, {cnat(T.idx(p))}, {cnat(T.idx(w) if w is not None else 0)})"
                         for u, v, p, w in cons4])
            lst = lambda d: clist([cpair(cnat(T.idx(k_)), cq(int(x_))) for k_, x_ in d.items()])
            cen = F(recorder.last.record.energy[0])
            extra.append(f"(CInit {vt} {hp(T, [(list(k), b) for k, b in poly.items()])} {cc4} {lst(init_state)} {lst(got)} {cq(cen)})")
            feats["init"] = True
    if c.get("via"):
        extra.append(f"(CInput {vt} {hp(T, spec_items)} {hp(T, [(list(k), b) for k, b in poly0.items()])})")
        extra.append(f"(CInput {vt} {hp(T, spec_items)} {hp(T, [(list(k), b) for k, b in poly.items()])})")
    child = recorder.last
    if child is not None and len(child) <= 96:
        # the whole bookkeeping of polymorph_response: which rows are kept, in which order, with which columns
        for v in child.variables:
            T.idx(v)
        crows_child = clist([clist([cq(int(x)) for x in r]) for r in child.record.sample])
        cout = clist([f"({clist([cq(x) for x in vals])}, {cq(en)}, {cbool(flag)})" for vals, en, flag in rows])
        extra.append(f"(CHocFull {hp(T, [(list(k), b) for k, b in poly.items()])} {ccons} {cbool(discard)} "
                     f"{clist([cnat(T.idx(v)) for v in child.variables])} {cvars} {crows_child} {cout})")
        feats["full"] = True
    return {"coq": coq, "extra_coq": extra, "py_fail": py_fail, "features": feats,
            "nontrivial": nprod > 0 and len(rows) > 0,
            "observed": {"variables": [str(v) for v in variables], "nrows": len(rows), "reduction": repr(red)}}


if __name__ == "__main__":
    wlib.main(gen_case, run_case)
