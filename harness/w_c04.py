"""C04 worker: edit histories on BQM (float64 / float32 / object dtype, base object or .spin/.binary view
handle) and QM; after every call the full state and all read paths are dumped and compared with the Coq model.

Coverage map (clause of the property -> stream that reaches it; "via" = alternative public spelling of the same edit):
  adding / setting linear biases ........ add_variable, add_linear, set_linear (via linear[v] = b, linear[v] += b), add_linear_from
                                          (list / tuple / generator / Mapping argument, alias add_variables_from), add_linear_from_array
  adding / setting quadratic biases ..... add_quadratic (alias add_interaction), set_quadratic (via quadratic[u, v] = b, adj[u][v] = b,
                                          adj[v][u] = b), add_quadratic_from (list / tuple / generator / Mapping, alias
                                          add_interactions_from), add_quadratic_from_dense
  removing .............................. remove_variable (named, pop, via del linear[v] with its ValueError -> KeyError translation),
                                          remove_variables_from, remove_interaction (via del quadratic[u, v]), remove_interactions_from
  contracting, flipping, fixing ......... contract_variables, flip_variable, fix_variable (via fix_variables(dict / pairs))
  relabelling ........................... relabel_variables (partial, swap, cycle, conflicting; inplace or copy), relabel_variables_as_integers
  scaling ............................... scale (plain; ignored_variables / ignored_interactions / ignore_offset in six iterable forms;
                                          via model *= k, model /= k)
  updating from another model ........... update (operand of either vartype and any dtype; QM operand for QM; via model += other)
  offset ................................ offset = b (via offset += b spelled as model += b, model -= b, deprecated add_offset(b))
  bounds, vartypes (QM) ................. add_variable(vartype, bounds), add_linear(default_vartype=, bounds), add_linear_from(defaults),
                                          add_variables_from, set_lower_bound, set_upper_bound, change_vartype(v), BQM change_vartype
                                          (inplace or copy)
  size .................................. resize (grow, shrink, negative), clear
  issued directly or through a view ..... every BQM call on the base, a fresh .spin/.binary handle or a handle captured earlier (stale)
  three storage back-ends ............... each BQM history in lock-step on float64 / float32 / object
  read paths ............................ observe(): linear, quadratic, adj, get_*, iter_*, degree, num_interactions, shape, is_linear,
                                          to_numpy_vectors with every option combination (base and both handles)
  a raising call changes nothing ........ ~15 % of the calls raise; dump before/after compared in Coq; on a QM the invariant of
                                          C04_qm_failed_op_is_noop (nrib: no REAL end in any interaction) is evaluated on every state
  operands of update .................... BQM of either vartype as float64 / float32 / object storage or handed over as its .spin /
                                          .binary view (QuadraticModel.update then takes its pure-Python path), QM operand for a QM
  QM.add_variables_from_model ........... per variable (variables=[v], any operand: QM with INTEGER / REAL bounds, BQM) or a whole BQM
  composite calls ....................... fix_variables with several entries, normalize (one or two ranges, ignored sets, ignore_offset;
                                          ranges chosen at run time so that the factor is a power of two), add_linear_equality_constraint:
                                          the call is made on the model, its documented primitive sequence on a deep copy supplies the
                                          intermediate states, and the model's final dump must be the one the Coq model reaches
Not reached: add_linear_inequality_constraint (generates slack labels; C16), energies-only paths.
"""
import copy
import warnings
from fractions import Fraction

import numpy as np
import dimod
from dimod import BinaryQuadraticModel, DictBQM, Float32BQM, QuadraticModel, Vartype

import wlib
from wlib import clist, cnat, cz, cq, cbool, copt, cpair
from gen import enc_label, F, fs, LabelTable, VT, exc_bucket, rand_desc
from gen import dec_label as _dec_label

warnings.simplefilter("ignore")

POOL = [0, 1, 2, 3, 'a', 'b', 'c', ('t', 1), ('t', 2)]
INTS = list(range(0, 9))
BUCKET = {"ValueError": "BValue", "TypeError": "BType", "KeyError": "BKey", "IndexError": "BIndex"}
F32_BITS, F64_BITS = 17, 44
VIEW_FORBIDDEN = {"resize", "lin_array", "dense", "change_vartype", "capture"}
# other public spellings of the same edit (step key "via"): writes through the linear / quadratic / adj mapping views
# (dimod/views/quadratic.py: __setitem__, __delitem__ with its ValueError -> KeyError translation), Mapping arguments of
# the *_from loops, aliases, in-place operators, the plural fix_variables
VIA = {"set_linear": ["view"], "set_quadratic": ["view", "adj", "adj_rev"], "remove_variable": ["view"],
       "remove_interaction": ["view"], "add_linear_from": ["dict", "alias"], "add_quadratic_from": ["dict", "alias"],
       "add_quadratic": ["alias"], "scale": ["imul", "itruediv"], "update": ["iadd"], "set_offset": ["iadd", "isub", "add_offset"],
       "fix": ["plural_dict", "plural_pairs"], "add_linear": ["linear_iadd"]}


def dec_label(j):
    """JSON -> label; {"np": k} is the numpy integer np.int64(k) (the same variable as the int k)"""
    if isinstance(j, dict) and "np" in j:
        return np.int64(j["np"])
    return _dec_label(j)


# ----------------------------------------------------------------------------------------------- generation
def dy(rng, kmax=6, jmax=2):
    return str(rng.dyadic(kmax, jmax))


def small_desc(rng, labels, kinds, single):
    n = rng.randint(0, min(5, len(labels)))
    ls = list(labels)
    rng.shuffle(ls)
    ls = ls[:n]
    if single:
        k = rng.choice(kinds)
        vts = [k] * n
    else:
        vts = [rng.choice(kinds) for _ in range(n)]
    vars_ = []
    for l, vt in zip(ls, vts):
        if vt == 'INTEGER':
            lb = rng.choice([0, 0, -3, 1]); ub = lb + rng.choice([1, 2, 5, 7])
        elif vt == 'REAL':
            lb = rng.choice([0, -2, -0.5]); ub = lb + rng.choice([1, 2.5, 4])
        elif vt == 'SPIN':
            lb, ub = -1, 1
        else:
            lb, ub = 0, 1
        vars_.append([enc_label(l), vt, lb, ub])
    lin = [[enc_label(l), dy(rng) if rng.random() > 0.15 else "0"] for l in ls]
    quad = []
    for i in range(n):
        for j in range(i, n):
            if i == j:
                if vts[i] != 'INTEGER' or rng.random() > 0.35:
                    continue
            else:
                if rng.random() > 0.5 or 'REAL' in (vts[i], vts[j]):
                    continue
            u, v = (ls[i], ls[j]) if rng.random() < 0.5 else (ls[j], ls[i])
            quad.append([enc_label(u), enc_label(v), dy(rng) if rng.random() > 0.12 else "0"])
    return {"vars": vars_, "lin": lin, "quad": quad, "off": dy(rng) if rng.random() < 0.7 else "0"}


def force_label(o, lab_json, vt):
    """make sure the operand description has a variable with this label (renaming its first variable, or adding one)"""
    if any(v[0] == lab_json for v in o["vars"]):
        return
    if not o["vars"]:
        o["vars"].append([lab_json, vt, -1 if vt == 'SPIN' else 0, 1])
        o["lin"].append([lab_json, "1"])
        return
    oldl = o["vars"][0][0]
    o["vars"][0][0] = lab_json
    for t in o["lin"]:
        if t[0] == oldl:
            t[0] = lab_json
    for t in o["quad"]:
        for k in (0, 1):
            if t[k] == oldl:
                t[k] = lab_json


def gen_case(rng, tier):
    kind = "qm" if rng.random() < 0.3 else "bqm"
    nlab = rng.randint(2, 7)
    # a quarter of the histories pass some integer labels as numpy integers (same variables as the ints); those
    # histories have no tuple labels: `np.int64(4) == ('t', 2)` is an array and the self-loop test `u == v` of
    # add_quadratic / set_quadratic / get_quadratic then raises (reported, corpus d8)
    np_mode = rng.random() < 0.25
    pool = [l for l in POOL if not (np_mode and isinstance(l, tuple))]
    rng.shuffle(pool)
    A = pool[:nlab]
    nsteps = rng.randint(1, 25 if tier == "quick" else 60)
    if kind == "bqm":
        vt = rng.choice(['BINARY', 'SPIN'])
        init = small_desc(rng, A, [vt], True)
        init["vartype"] = vt
    else:
        init = small_desc(rng, A, ['BINARY', 'SPIN', 'INTEGER', 'INTEGER', 'REAL'], False)
    cur = [dec_label(v[0]) for v in init["vars"]]
    steps = []

    def lab(p_present=0.85):
        l = enc_label(rng.choice(cur)) if cur and rng.random() < p_present else enc_label(rng.choice(A))
        if np_mode and isinstance(l, int) and rng.random() < 0.5:
            return {"np": l}
        return l

    def note(l):
        l = dec_label(l)
        if l not in cur:
            cur.append(l)

    def drop(l):
        l = dec_label(l)
        if l in cur:
            cur.remove(l)

    def two(distinct=0.93):
        u = lab()
        v = lab()
        if rng.random() < distinct:
            for _ in range(6):
                if dec_label(v) != dec_label(u):
                    break
                v = enc_label(rng.choice(A))
        return u, v

    def mapping():
        k = rng.randint(1, 4)
        keys = []
        for _ in range(k):
            x = lab(0.92)
            if all(dec_label(x) != dec_label(y) for y in keys):
                keys.append(x)
        mode = rng.random()
        if mode < 0.3:
            vals = keys[1:] + keys[:1]
        elif mode < 0.4:
            vals = list(reversed(keys))
        elif mode < 0.8:
            free = [l for l in A if l not in cur]
            rng.shuffle(free)
            vals = [enc_label(free[i]) if i < len(free) else enc_label(rng.choice(A)) for i in range(len(keys))]
        else:
            vals = [enc_label(rng.choice(A)) for _ in keys]
        return [[a, b] for a, b in zip(keys, vals)]

    def apply_mapping(m):
        mm = {dec_label(a): dec_label(b) for a, b in m}
        new = [mm.get(l, l) for l in cur]
        if len(set(map(lkey, new))) == len(new):
            cur[:] = new

    BQM_OPS = [("add_variable", 4), ("add_linear", 6), ("set_linear", 4), ("add_quadratic", 10), ("set_quadratic", 6),
               ("add_linear_from", 3), ("add_quadratic_from", 4), ("lin_array", 1), ("dense", 3), ("remove_variable", 5),
               ("remove_variables_from", 2), ("remove_interaction", 5), ("remove_interactions_from", 2), ("contract", 4),
               ("flip", 5), ("relabel", 7), ("relabel_ints", 2), ("scale", 4), ("update", 4), ("set_offset", 3),
               ("resize", 2), ("clear", 1), ("change_vartype", 5), ("fix", 3), ("capture", 4),
               ("fix_many", 2), ("normalize", 2), ("eq_constraint", 2)]
    QM_OPS = [("q_add_variable", 8), ("add_linear", 6), ("q_add_linear_dflt", 4), ("q_add_linear_from_dflt", 4), ("set_linear", 4), ("add_quadratic", 10),
              ("set_quadratic", 6), ("add_linear_from", 2), ("add_quadratic_from", 3), ("q_add_variables_from", 2), ("q_add_vars_from_model", 6),
              ("remove_variable", 5), ("remove_interaction", 5), ("flip", 4), ("relabel", 6), ("relabel_ints", 2),
              ("scale", 3), ("update", 5), ("set_offset", 2), ("clear", 1), ("q_change_vartype", 5), ("fix", 3),
              ("q_set_lb", 3), ("q_set_ub", 3), ("fix_many", 1)]
    table = BQM_OPS if kind == "bqm" else QM_OPS
    names = [n for n, _ in table]
    weights = [w for _, w in table]
    captured = False
    for _ in range(nsteps):
        name = rng.choices(names, weights)[0]
        h = "base"
        if kind == "bqm" and name not in VIEW_FORBIDDEN:
            r = rng.random()
            h = "base" if r < 0.5 else "spin" if r < 0.65 else "binary" if r < 0.8 else ("stale" if captured else "base")
        op = None
        if name == "capture":
            op = ["capture", rng.choice(["spin", "binary"])]
            captured = True
        elif name == "add_variable":
            v = lab(0.3); note(v)
            op = [name, v, dy(rng)]
        elif name in ("add_linear", "set_linear"):
            v = lab(0.75)
            if kind == "bqm":
                note(v)
            op = [name, v, dy(rng)]
        elif name in ("add_quadratic", "set_quadratic"):
            u, v = two(0.9 if kind == "qm" or h == "base" else 1.0)
            if kind == "bqm" and dec_label(u) != dec_label(v):
                note(u); note(v)
            op = [name, u, v, dy(rng) if rng.random() > 0.1 else "0"]
        elif name == "add_linear_from":
            op = [name, [[lab(0.8), dy(rng)] for _ in range(rng.randint(0, 3))]]
            if kind == "bqm":
                for v, _ in op[1]:
                    note(v)
        elif name == "add_quadratic_from":
            op = [name, [list(two(0.95)) + [dy(rng)] for _ in range(rng.randint(0, 3))]]
        elif name == "lin_array":
            op = [name, [dy(rng) for _ in range(rng.randint(0, 4))]]
        elif name == "dense":
            # add_quadratic_from_dense needs labels 0..n-1: make the model range-labelled first; the matrix is full and not
            # symmetric (entries above and below the diagonal; zero diagonal and no cancelling pair, open finding d5)
            if cur and [lkey(x) for x in cur] != [repr(i) for i in range(len(cur))]:
                steps.append({"h": "base", "op": ["relabel_ints", True]})
                cur[:] = list(range(len(cur)))
            n = rng.randint(1, max(1, min(5, len(cur))))
            mat = [["0"] * n for _ in range(n)]
            for i in range(n):
                for j in range(n):
                    if i != j and rng.random() < 0.7:
                        mat[i][j] = dy(rng)
            for i in range(n):
                for j in range(i + 1, n):
                    if F(mat[i][j]) != 0 and F(mat[i][j]) + F(mat[j][i]) == 0:
                        mat[j][i] = str(F(mat[j][i]) + 1)
            op = [name, mat]
        elif name == "remove_variable":
            v = None if rng.random() < 0.2 else lab(0.9)
            if v is not None:
                drop(v)
            elif cur:
                cur.pop()
            op = [name, v]
        elif name == "remove_variables_from":
            op = [name, [lab(0.9) for _ in range(rng.randint(0, 3))]]
            for v in op[1]:
                drop(v)
        elif name == "remove_interaction":
            op = [name] + list(two(0.95))
        elif name == "remove_interactions_from":
            op = [name, [list(two(0.95)) for _ in range(rng.randint(0, 3))]]
        elif name == "contract":
            u, v = two(1.0)
            if dec_label(u) == dec_label(v):
                continue
            drop(v)
            op = [name, u, v]
        elif name == "flip":
            op = [name, lab(0.9)]
        elif name == "relabel":
            m = mapping()
            apply_mapping(m)
            op = [name, m, rng.random() < 0.8 or h != "base"]
        elif name == "relabel_ints":
            cur[:] = list(range(len(cur)))
            op = [name, rng.random() < 0.8 or h != "base"]
        elif name == "scale":
            k = str(rng.choice([Fraction(2), Fraction(-1), Fraction(1, 2), Fraction(-2), Fraction(3), Fraction(1, 4), Fraction(0), Fraction(3, 2)]))
            if kind == "qm" or rng.random() < 0.4:
                op = [name, k, None, None, False]
            else:
                op = [name, k, [lab(0.9) for _ in range(rng.randint(0, 2))],
                      [list(two(0.95)) for _ in range(rng.randint(0, 2))], rng.random() < 0.4]
        elif name == "update":
            if kind == "bqm":
                o = small_desc(rng, A, [rng.choice(['BINARY', 'SPIN'])], True)
                o["vartype"] = o["vars"][0][1] if o["vars"] else rng.choice(['BINARY', 'SPIN'])
                o["dtype"] = rng.choice(["f64", "f32", "obj"])
            else:
                if rng.random() < 0.6:
                    o = small_desc(rng, A, ['BINARY', 'SPIN', 'INTEGER', 'INTEGER', 'REAL'], False)
                    o["dtype"] = "qm"
                else:
                    o = small_desc(rng, A, [rng.choice(['BINARY', 'SPIN'])], True)
                    o["vartype"] = o["vars"][0][1] if o["vars"] else 'BINARY'
                    o["dtype"] = rng.choice(["f64", "f32"])
            if kind == "qm" and o.get("dtype") != "qm" and rng.random() < 0.5:
                # share a SPIN / BINARY variable of the initial QM, with the operand showing that variable's vartype
                sb = [v for v in init["vars"] if v[1] in ('SPIN', 'BINARY')]
                if sb:
                    tgt = rng.choice(sb)
                    o["vartype"] = tgt[1]
                    for vv in o["vars"]:
                        vv[1] = tgt[1]; vv[2] = -1 if tgt[1] == 'SPIN' else 0; vv[3] = 1
                    force_label(o, tgt[0], tgt[1])
            # the operand itself in other forms: object-dtype storage, or handed over as its .spin / .binary view
            # (QuadraticModel.update then takes its pure-Python path; BQM.update reads through the view)
            if o.get("dtype") != "qm":
                if kind == "qm" and rng.random() < 0.3:
                    o["dtype"] = "obj"
                r2 = rng.random()
                if r2 < 0.2:
                    # a view that shows the vartype the description names: the storage gets the other one
                    o["as_view"] = o["vartype"].lower()
                    o["store_other"] = True
                elif r2 < 0.35:
                    o["as_view"] = rng.choice(["spin", "binary"])
            op = [name, o]
            if kind == "bqm":
                for v in o["vars"]:
                    note(v[0])
        elif name == "set_offset":
            op = [name, dy(rng)]
        elif name == "resize":
            n = max(0, len(cur) + rng.randint(-2, 2))
            if rng.random() < 0.1:
                n = -rng.randint(1, 2)          # must raise ValueError on every back-end and change nothing
            op = [name, min(n, 7)]
            if n >= 0:
                cur[:] = cur[:n]
        elif name == "clear":
            op = [name]
            cur[:] = []
        elif name == "change_vartype":
            op = [name, rng.choice(['BINARY', 'SPIN']), rng.random() < 0.8]
        elif name == "fix":
            v = lab(0.9); drop(v)
            op = [name, v, str(rng.choice([0, 1, -1, 2, Fraction(1, 2)]))]
        elif name == "fix_many":
            # fix_variables with several entries: a loop of fix_variable calls (dict or pairs argument)
            vs = []
            for _k in range(rng.randint(2, 3)):
                v = lab(0.95)
                if all(lkey(dec_label(v)) != lkey(dec_label(w)) for w in vs):
                    vs.append(v)
            for v in vs:
                drop(v)
            op = [name, [[v, str(rng.choice([0, 1, -1, 2, Fraction(1, 2)]))] for v in vs], rng.choice(["dict", "pairs"])]
            h = "base"
        elif name == "normalize":
            # normalize(bias_range[, quadratic_range], ignored ..., ignore_offset): the ranges are chosen when the case runs as
            # (largest non-ignored |bias|) * 2**j so that the scale factor is a power of two
            op = [name, rng.choice([0, 1, -1, 2, -2]), rng.choice([None, None, 0, 1, -1]),
                  [lab(0.9) for _ in range(rng.randint(0, 1))] if rng.random() < 0.3 else [],
                  [list(two(0.95)) for _ in range(rng.randint(0, 1))] if rng.random() < 0.3 else [], rng.random() < 0.3]
            h = "base"
        elif name == "eq_constraint":
            # add_linear_equality_constraint(terms, lagrange_multiplier, constant) with distinct variables, non-zero factors
            vs = []
            for _k in range(rng.randint(1, 3)):
                v = lab(0.7)
                if all(lkey(dec_label(v)) != lkey(dec_label(w)) for w in vs):
                    vs.append(v)
            for v in vs:
                note(v)
            # a label occurring more than once in `terms` (x*x = x for 0/1 values, s*s = 1 for spins: the cross term of two
            # occurrences is linear resp. constant), and the call made through a .spin / .binary handle, which takes the
            # pure-Python fallback on every back-end (round-6 miss C04 r6m1)
            if vs and rng.random() < 0.35:
                for _k in range(rng.randint(1, 2)):
                    vs.insert(rng.randint(0, len(vs)), rng.choice(vs))
            nz = [1, -1, 2, -2, Fraction(1, 2), 3]
            op = [name, [[v, str(rng.choice(nz))] for v in vs], str(rng.choice([1, 2, Fraction(1, 2), -1])),
                  str(rng.choice([0, 1, -1, 2, Fraction(1, 2)]))]
            h = rng.choice(["base", "base", "spin", "binary"])
        elif name == "q_add_variable":
            vt = rng.choice(['BINARY', 'SPIN', 'INTEGER', 'INTEGER', 'REAL'])
            v = lab(0.25); note(v)
            lb = ub = None
            if rng.random() < 0.7:
                lb = rng.choice([0, -3, 1, -0.5, 2.5]);
            if rng.random() < 0.7:
                ub = (lb or 0) + rng.choice([1, 2, 5, 0.25, -1, 0])
            op = [name, vt, v, lb, ub]
        elif name == "q_add_linear_dflt":
            vt = rng.choice(['BINARY', 'SPIN', 'INTEGER', 'REAL'])
            v = lab(0.4); note(v)
            lb = rng.choice([None, 0, -2, 1]); ub = rng.choice([None, 3, 1, 7.5])
            op = [name, v, dy(rng), vt, lb, ub]
        elif name == "q_add_linear_from_dflt":
            vt = rng.choice(['BINARY', 'SPIN', 'INTEGER', 'INTEGER', 'REAL', None])
            items = [[lab(0.4), dy(rng)] for _ in range(rng.randint(0, 3))]
            lb = rng.choice([None, None, 0, -2, 1]); ub = rng.choice([None, None, 3, 1, 7.5])
            if vt is not None:
                for v, _ in items:
                    note(v)
            op = [name, items, vt, lb, ub]
        elif name == "q_add_variables_from":
            op = [name, rng.choice(['BINARY', 'SPIN', 'INTEGER']), [lab(0.3) for _ in range(rng.randint(0, 3))]]
        elif name == "q_add_vars_from_model":
            # add_variables_from_model(other, variables=...): per variable (any operand) or the whole BQM operand at once
            if rng.random() < 0.6:
                o = small_desc(rng, A, ['BINARY', 'SPIN', 'INTEGER', 'INTEGER', 'REAL', 'REAL'], False)
                o["dtype"] = "qm"
            else:
                o = small_desc(rng, A, [rng.choice(['BINARY', 'SPIN'])], True)
                o["vartype"] = o["vars"][0][1] if o["vars"] else 'BINARY'
                o["dtype"] = rng.choice(["f64", "f32", "obj"])
            if not o["vars"]:
                continue
            whole = o["dtype"] != "qm" and rng.random() < 0.5
            cand = o["vars"]
            if rng.random() < 0.7:
                # prefer variables with bounds (INTEGER / REAL) and labels the model probably does not hold yet
                curk = set(map(lkey, cur))
                for flt in (lambda vv: vv[1] in ('INTEGER', 'REAL') and lkey(dec_label(vv[0])) not in curk,
                            lambda vv: vv[1] in ('INTEGER', 'REAL')):
                    c2 = [vv for vv in o["vars"] if flt(vv)]
                    if c2:
                        cand = c2
                        break
            pick = None if whole else rng.choice(cand)[0]
            for vv in (o["vars"] if whole else [[pick]]):
                note(vv[0])
            op = [name, o, pick]
        elif name == "q_change_vartype":
            op = [name, rng.choice(['BINARY', 'SPIN', 'INTEGER', 'REAL']), lab(0.9)]
        elif name in ("q_set_lb", "q_set_ub"):
            op = [name, lab(0.9), rng.choice([0, 1, -1, 2, 5, -4, 0.5, 2.5, 7])]
        if op is None:
            continue
        st = {"h": h, "op": op}
        if name in VIA and rng.random() < 0.4:
            st["via"] = rng.choice(VIA[name])
        if name == "scale" and rng.random() < 0.2:
            # the model as its own operand (round-6 miss C04 r6m2): m.update(m) and m += m double every coefficient, m -= m
            # (also through another name for the same object) leaves the zero polynomial over the same variables and
            # interactions; __isub__ must copy an aliased operand before it negates the receiver
            sv = rng.choice(["self_update", "self_iadd", "self_isub", "self_isub_alias"])
            st = {"h": "base", "op": [name, "0" if "isub" in sv else "2", None, None, False], "via": sv}
            op = st["op"]
        if name == "scale" and op[2] is not None:
            # every documented argument form: any iterable, including one-shot iterators
            st["form"] = [rng.choice(["list", "tuple", "set", "frozenset", "iter", "dictkeys"]),
                          rng.choice(["list", "tuple", "set", "frozenset", "iter", "dictkeys"])]
        elif name in ("add_linear_from", "add_quadratic_from", "remove_variables_from", "remove_interactions_from",
                      "q_add_variables_from", "q_add_linear_from_dflt", "q_add_vars_from_model"):
            st["form"] = [rng.choice(["list", "list", "tuple", "iter"])]
        steps.append(st)
    return {"kind": kind, "init": init, "steps": steps, "avoid_known": True}


# ----------------------------------------------------------------------------------------------- building
def build(desc, target):
    if desc.get("real_interactions"):
        # corpus only: the operand is built while the global switch dimod.REAL_INTERACTIONS is on
        d2 = dict(desc); d2.pop("real_interactions")
        dimod.REAL_INTERACTIONS = True
        try:
            return build(d2, target)
        finally:
            dimod.REAL_INTERACTIONS = False
    if target == "qm":
        qm = QuadraticModel()
        for l, vt, lb, ub in desc["vars"]:
            if vt in ('INTEGER', 'REAL'):
                qm.add_variable(vt, dec_label(l), lower_bound=lb, upper_bound=ub)
            else:
                qm.add_variable(vt, dec_label(l))
        m = qm
    else:
        cls = {"f64": BinaryQuadraticModel, "f32": Float32BQM, "obj": DictBQM}[target]
        m = cls(desc.get("vartype", "BINARY"))
        for l, _, _, _ in desc["vars"]:
            m.add_variable(dec_label(l))
    for l, b in desc["lin"]:
        m.add_linear(dec_label(l), float(F(b)))
    for u, v, b in desc["quad"]:
        m.add_quadratic(dec_label(u), dec_label(v), float(F(b)))
    m.offset = float(F(desc["off"]))
    return m


def is_qm(m):
    return isinstance(m, QuadraticModel)


# ----------------------------------------------------------------------------------------------- observation
def same_label(a, b):
    return type(a) is type(b) and a == b or (isinstance(a, (int, np.integer)) and isinstance(b, (int, np.integer))
                                             and not isinstance(a, bool) and int(a) == int(b))


def lkey(l):
    return repr(int(l)) if isinstance(l, np.integer) else repr(l)


def vector_checks(h, tag, lin, qd, off, strict):
    """to_numpy_vectors with every option combination against linear / quadratic of the same handle:
    every (row label, col label, bias) is an interaction with that bias, each interaction exactly once,
    ldata in the order of the returned / requested labels.  Returns a message or None."""
    K = lkey
    vs = [v for v, _ in lin]
    lind = {K(v): b for v, b in lin}
    orders = [None]
    if len(vs) >= 2:
        orders += [list(reversed(vs)), vs[1:] + vs[:1]]
    for order in orders:
        for sort_indices in (False, True):
            for sort_labels in (False, True):
                for return_labels in (True, False):
                    if not return_labels and order is None and sort_labels:
                        continue          # the label order is not observable then
                    opts = f"{tag}to_numpy_vectors(variable_order={order!r}, sort_indices={sort_indices}, sort_labels={sort_labels}, return_labels={return_labels})"
                    try:
                        vec = h.to_numpy_vectors(variable_order=order, sort_indices=sort_indices, sort_labels=sort_labels,
                                                 return_labels=return_labels)
                    except Exception as e:   # noqa
                        return f"{opts} raised {type(e).__name__}: {e}"
                    if return_labels:
                        ld, (ir, ic, qv), o, labs = vec
                        labs = list(labs)
                    else:
                        ld, (ir, ic, qv), o = vec
                        labs = list(order) if order is not None else list(vs)
                    if order is not None and [K(x) for x in labs] != [K(x) for x in order]:
                        return f"{opts}: labels {labs!r} are not the requested order"
                    if sorted(map(K, labs)) != sorted(map(K, vs)) or len(ld) != len(vs):
                        return f"{opts}: labels {labs!r} differ from variables {vs!r}"
                    if order is None and not sort_labels and [K(x) for x in labs] != [K(x) for x in vs]:
                        return f"{opts}: labels {labs!r} are not in variable order {vs!r}"
                    if [F(x) for x in ld] != [lind[K(l)] for l in labs]:
                        return f"{opts}: linear vector {[str(F(x)) for x in ld]} is not linear in label order {labs!r}"
                    if not (len(ir) == len(ic) == len(qv) == len(qd)):
                        return f"{opts}: {len(qv)} quadratic entries for {len(qd)} interactions"
                    seen = set()
                    for r, c, x in zip(ir, ic, qv):
                        r, c = int(r), int(c)
                        if not (0 <= r < len(labs) and 0 <= c < len(labs)):
                            return f"{opts}: index out of range"
                        k = frozenset((K(labs[r]), K(labs[c])))
                        if k in seen:
                            return f"{opts}: interaction {(labs[r], labs[c])!r} listed twice"
                        seen.add(k)
                        if k not in qd:
                            return f"{opts}: {(labs[r], labs[c])!r} is not an interaction"
                        if F(x) != qd[k]:
                            return f"{opts}: bias {F(x)} for {(labs[r], labs[c])!r} but quadratic says {qd[k]}"
                    if F(o) != off:
                        return f"{opts}: offset {F(o)} differs from offset {off}"
    return None


def observe(m, strict=True):
    """-> (dump dict, py_fail or None): dump uses exact Fractions; all read paths cross-checked"""
    vs = list(m.variables)
    fail = None

    def bad(msg):
        nonlocal fail
        if fail is None:
            fail = msg
    lin = [(v, F(b)) for v, b in m.linear.items()]
    quad = [((u, v), F(b)) for (u, v), b in m.quadratic.items()]
    off = F(m.offset)
    if is_qm(m):
        info = [(v, m.vartype(v).name, F(m.lower_bound(v)), F(m.upper_bound(v))) for v in vs]
    else:
        vt = m.vartype.name
        info = [(v, vt, Fraction(-1 if vt == 'SPIN' else 0), Fraction(1)) for v in vs]
    deg = [int(m.degree(v)) for v in vs]
    nint = int(m.num_interactions)
    nvar = int(m.num_variables)
    islin = bool(m.is_linear())
    # ---- mutual consistency of the read paths (exact)
    K = lkey
    if [K(v) for v, _ in lin] != [K(v) for v in vs] or len(m.linear) != len(vs):
        bad(f"linear keys {[v for v, _ in lin]!r} differ from variables {vs!r}")
    if len(set(map(K, vs))) != len(vs):
        bad(f"duplicate variables {vs!r}")
    if tuple(m.shape) != (nvar, nint) or nvar != len(vs):
        bad(f"shape {m.shape} vs num_variables {nvar}, num_interactions {nint}, {len(vs)} variables")
    if [(K(v), F(b)) for v, b in m.iter_linear()] != [(K(v), b) for v, b in lin]:
        bad("iter_linear differs from linear")
    for v, b in lin:
        if F(m.get_linear(v)) != b:
            bad(f"get_linear({v!r}) differs from linear[{v!r}]")
    qd = {}
    for (u, v), b in quad:
        k = frozenset((K(u), K(v)))
        if k in qd:
            bad(f"interaction {(u, v)!r} listed twice in quadratic")
        qd[k] = b
        if K(u) not in set(map(K, vs)) or K(v) not in set(map(K, vs)):
            bad(f"quadratic mentions a non-variable: {(u, v)!r}")
            continue
        if F(m.get_quadratic(u, v)) != b or F(m.get_quadratic(v, u)) != b:
            bad(f"get_quadratic{(u, v)!r} differs from quadratic[{(u, v)!r}]")
    iq = {}
    for u, v, b in m.iter_quadratic():
        k = frozenset((K(u), K(v)))
        if k in iq:
            bad("iter_quadratic lists an interaction twice")
        iq[k] = F(b)
    if iq != qd:
        bad("iter_quadratic differs from quadratic")
    if len(m.quadratic) != nint or len(qd) != nint:
        bad(f"num_interactions {nint} but quadratic has {len(qd)} entries")
    adj = m.adj
    if [K(v) for v in adj] != [K(v) for v in vs]:
        bad("adj keys differ from variables")
    for v, d in zip(vs, deg):
        nb = {K(u): F(b) for u, b in adj[v].items()}
        exp = {}
        for k, b in qd.items():
            if K(v) in k:
                other = [x for x in k if x != K(v)]
                exp[other[0] if other else K(v)] = b
        if nb != exp:
            bad(f"adj[{v!r}] = {nb} but quadratic gives {exp}")
        itn = [(K(u), F(b)) for u, b in m.iter_neighborhood(v)]
        if dict(itn) != nb or len(itn) != len(nb):
            bad(f"iter_neighborhood({v!r}) differs from adj")
        if d != len(nb) or len(adj[v]) != d:
            bad(f"degree({v!r}) = {d} but adj has {len(nb)} neighbours")
    if not is_qm(m):
        msg = vector_checks(m, "", [(v, b) for v, b in lin], qd, off, strict)
        if msg:
            bad(msg)
        # the same read path through the .spin / .binary handles, against the handle's own linear / quadratic
        for hname in ("spin", "binary"):
            hv = getattr(m, hname)
            if hv is m:
                continue
            try:
                hlin = [(v, F(b)) for v, b in hv.linear.items()]
                hqd = {}
                for (u, v), b in hv.quadratic.items():
                    hqd[frozenset((K(u), K(v)))] = F(b)
                hoff = F(hv.offset)
            except Exception as e:   # noqa
                bad(f".{hname} handle: reading linear/quadratic raised {type(e).__name__}: {e}")
                continue
            if len(hqd) != nint or [K(v) for v, _ in hlin] != [K(v) for v in vs]:
                bad(f".{hname} handle lists other variables / interactions than the base")
            msg = vector_checks(hv, f".{hname} handle: ", hlin, hqd, hoff, strict)
            if msg:
                bad(msg)
    return {"info": info, "lin": lin, "quad": quad, "off": off, "deg": deg, "nint": nint, "nvar": nvar, "islin": islin}, fail


def bits(x):
    """significant bits of a dyadic rational's odd part"""
    x = Fraction(x)
    if x == 0:
        return 0
    n = abs(x.numerator)
    while n % 2 == 0:
        n //= 2
    return n.bit_length() if x.denominator & (x.denominator - 1) == 0 else 999


def width(d):
    return max([bits(d["off"])] + [bits(b) for _, b in d["lin"]] + [bits(b) for _, b in d["quad"]] + [0])


def coq_dump(d, T):
    info = clist([f"(mkV {cnat(T.idx(v))} {vt} {cq(lb)} {cq(ub)})" for v, vt, lb, ub in d["info"]])
    lin = clist([cpair(cnat(T.idx(v)), cq(b)) for v, b in d["lin"]])
    quad = clist([f"({cnat(T.idx(u))}, {cnat(T.idx(v))}, {cq(b)})" for (u, v), b in d["quad"]])
    return (f"(mkDump {info} (mkObs {cq(d['off'])} {lin} {quad}) {clist([cnat(x) for x in d['deg']])} "
            f"{cnat(d['nint'])} {cnat(d['nvar'])} {cbool(d['islin'])})")


def coq_state(desc, T, kind):
    D = dec_label
    vs = clist([f"(mkV {cnat(T.idx(D(l)))} {vt} {cq(F(lb))} {cq(F(ub))})" for l, vt, lb, ub in desc["vars"]])
    lin = clist([cpair(cnat(T.idx(D(l))), cq(F(b))) for l, b in desc["lin"]])
    quad = clist([f"({cnat(T.idx(D(u)))}, {cnat(T.idx(D(v)))}, {cq(F(b))})" for u, v, b in desc["quad"]])
    k = "None" if kind == "qm" else f"(Some {desc.get('vartype', 'BINARY')})"
    return f"(mkSt {k} {vs} (mkPoly {cq(F(desc['off']))} {lin} {quad}))"


def coq_state_of_bqm(b, T):
    """Coq state of a BQM object (base or view) exactly as it shows itself: variables in order, its vartype, biases"""
    vt = b.vartype.name
    lbq = cq(Fraction(-1 if vt == 'SPIN' else 0))
    vs = clist([f"(mkV {cnat(T.idx(v))} {vt} {lbq} {cq(Fraction(1))})" for v in b.variables])
    lin = clist([cpair(cnat(T.idx(v)), cq(F(x))) for v, x in b.linear.items()])
    quad = clist([f"({cnat(T.idx(u))}, {cnat(T.idx(v))}, {cq(F(x))})" for (u, v), x in b.quadratic.items()])
    return f"(mkSt (Some {vt}) {vs} (mkPoly {cq(F(b.offset))} {lin} {quad}))"


def fl(x):
    return float(F(x))


def oq(x):
    return "None" if x is None else f"(Some {cq(F(x))})"


# ----------------------------------------------------------------------------------------------- execution
class Target:
    def __init__(self, name, desc, strict=True):
        self.name = name
        self.strict = strict
        self.m = build(desc, name)
        self.stale = None
        self.steps = []
        self.d0, self.fail = observe(self.m, strict)
        self.prev = self.d0

    def handle(self, h):
        if h == "spin":
            return self.m.spin
        if h == "binary":
            return self.m.binary
        if h == "stale" and self.stale is not None:
            return self.stale
        return self.m

    def hterm(self, hobj):
        if hobj is self.m:
            return "Direct"
        return f"(Via {hobj.data._vartype.name})"


def as_form(items, form):
    """the same elements as another kind of iterable (order kept where the form has one)"""
    items = list(items)
    if form == "tuple":
        return tuple(items)
    if form == "iter":
        return (x for x in items)          # one-shot generator
    if form == "set":
        return set(items)
    if form == "frozenset":
        return frozenset(items)
    if form == "dictkeys":
        return dict.fromkeys(items).keys()
    return items


def run_op(t, hname, op, T, avoid, form=(), via=None):
    """execute one op on target t; returns (coq op term, coq handle term, exception or None)"""
    name = op[0]
    m = t.m
    f0 = form[0] if len(form) > 0 else "list"
    f1 = form[1] if len(form) > 1 else "list"
    hobj = t.handle(hname) if not is_qm(m) else m
    if avoid and hobj is not m:
        # inputs of reported defects are kept out of the random stream (they live in corpus/C04):
        # pop through a view of the object back-end (TypeError), set_quadratic(u, u) through a view (adds u, then raises)
        if (name == "remove_variable" and op[1] is None) or \
                (name == "set_quadratic" and lkey(dec_label(op[1])) == lkey(dec_label(op[2]))):
            hobj = m
    hterm = t.hterm(hobj) if not is_qm(m) else "Direct"
    L = lambda j: dec_label(j)
    N = lambda j: cnat(T.idx(dec_label(j)))
    exc = None
    coq = None
    view_keyerror = False          # the mapping views turn the method's ValueError into KeyError
    try:
        if name in ("add_variable", "add_linear", "set_linear"):
            con = {"add_variable": "OAddVariable", "add_linear": "OAddLinear", "set_linear": "OSetLinear"}[name]
            coq = f"({con} {N(op[1])} {cq(F(op[2]))})"
            if name == "set_linear" and via == "view":
                hobj.linear[L(op[1])] = fl(op[2])
            elif name == "add_linear" and via == "linear_iadd" and lkey(L(op[1])) in set(map(lkey, m.variables)):
                # linear[v] += b on an existing variable: getter then setter
                cur = F(hobj.linear[L(op[1])])
                coq = f"(OSetLinear {N(op[1])} {cq(cur + F(op[2]))})"
                hobj.linear[L(op[1])] += fl(op[2])
            else:
                getattr(hobj, name)(L(op[1]), fl(op[2]))
        elif name in ("add_quadratic", "set_quadratic"):
            con = "OAddQuadratic" if name == "add_quadratic" else "OSetQuadratic"
            coq = f"({con} {N(op[1])} {N(op[2])} {cq(F(op[3]))})"
            present = set(map(lkey, m.variables))
            if name == "set_quadratic" and via == "view":
                hobj.quadratic[L(op[1]), L(op[2])] = fl(op[3])
            elif name == "set_quadratic" and via == "adj" and lkey(L(op[1])) in present:
                hobj.adj[L(op[1])][L(op[2])] = fl(op[3])          # Neighborhood.__setitem__
            elif name == "set_quadratic" and via == "adj_rev" and lkey(L(op[2])) in present:
                coq = f"({con} {N(op[2])} {N(op[1])} {cq(F(op[3]))})"
                hobj.adj[L(op[2])][L(op[1])] = fl(op[3])
            elif name == "add_quadratic" and via == "alias" and not is_qm(m):
                hobj.add_interaction(L(op[1]), L(op[2]), fl(op[3]))
            else:
                getattr(hobj, name)(L(op[1]), L(op[2]), fl(op[3]))
        elif name == "add_linear_from":
            coq = f"(OAddLinearFrom {clist([cpair(N(v), cq(F(b))) for v, b in op[1]])})"
            items = [(L(v), fl(b)) for v, b in op[1]]
            if via == "dict" and len(set(lkey(v) for v, _ in items)) == len(items):
                hobj.add_linear_from(dict(items))
            elif via == "alias" and not is_qm(m):
                hobj.add_variables_from(as_form(items, f0))
            else:
                hobj.add_linear_from(as_form(items, f0))
        elif name == "add_quadratic_from":
            coq = f"(OAddQuadraticFrom {clist([f'({N(u)}, {N(v)}, {cq(F(b))})' for u, v, b in op[1]])})"
            items = [(L(u), L(v), fl(b)) for u, v, b in op[1]]
            if via == "dict" and len(set((lkey(u), lkey(v)) for u, v, _ in items)) == len(items):
                hobj.add_quadratic_from({(u, v): b for u, v, b in items})
            elif via == "alias" and not is_qm(m):
                hobj.add_interactions_from(as_form(items, f0))
            else:
                hobj.add_quadratic_from(as_form(items, f0))
        elif name == "lin_array":
            coq = f"(OAddLinearFrom {clist([cpair(cnat(T.idx(i)), cq(F(b))) for i, b in enumerate(op[1])])})"
            m.add_linear_from_array(np.array([fl(b) for b in op[1]], dtype=np.float64))
        elif name == "dense":
            n = len(op[1])
            trip = [(i, j, F(op[1][i][j]) + F(op[1][j][i])) for i in range(n) for j in range(i + 1, n)
                    if F(op[1][i][j]) + F(op[1][j][i]) != 0]
            coq = "(OAddQuadraticFrom " + clist([f"({cnat(T.idx(i))}, {cnat(T.idx(j))}, {cq(b)})" for i, j, b in trip]) + ")"
            isr = [lkey(v) for v in m.variables] == [repr(i) for i in range(len(m.variables))]
            plain = (isr and n <= len(m.variables) and all(F(op[1][i][i]) == 0 for i in range(n))
                     and all(F(op[1][i][j]) == 0 or F(op[1][j][i]) == 0 or F(op[1][i][j]) + F(op[1][j][i]) != 0
                             for i in range(n) for j in range(n)))
            if plain or not avoid:
                m.add_quadratic_from_dense(np.array([[fl(x) for x in row] for row in op[1]], dtype=np.float64))
            else:
                # outside the range-labelled / zero-diagonal / no-growth case the back-ends differ (see report):
                # the same interactions are added through add_quadratic_from instead
                m.add_quadratic_from([(i, j, float(b)) for i, j, b in trip])
        elif name == "remove_variable":
            coq = f"(ORemoveVariable {'None' if op[1] is None else '(Some ' + N(op[1]) + ')'})"
            if op[1] is None:
                hobj.remove_variable()
            elif via == "view":
                view_keyerror = True
                del hobj.linear[L(op[1])]
            else:
                hobj.remove_variable(L(op[1]))
        elif name == "remove_variables_from":
            coq = f"(ORemoveVariablesFrom {clist([N(v) for v in op[1]])})"
            hobj.remove_variables_from(as_form([L(v) for v in op[1]], f0))
        elif name == "remove_interaction":
            coq = f"(ORemoveInteraction {N(op[1])} {N(op[2])})"
            if via == "view":
                view_keyerror = True
                del hobj.quadratic[L(op[1]), L(op[2])]
            else:
                hobj.remove_interaction(L(op[1]), L(op[2]))
        elif name == "remove_interactions_from":
            coq = f"(ORemoveInteractionsFrom {clist([cpair(N(u), N(v)) for u, v in op[1]])})"
            hobj.remove_interactions_from(as_form([(L(u), L(v)) for u, v in op[1]], f0))
        elif name == "contract":
            coq = f"(OContract {N(op[1])} {N(op[2])})"
            hobj.contract_variables(L(op[1]), L(op[2]))
        elif name == "flip":
            coq = f"(OFlip {N(op[1])})"
            hobj.flip_variable(L(op[1]))
        elif name == "relabel":
            pairs = [(L(a), L(b)) for a, b in op[1]]
            if avoid and not is_qm(m):
                present = set(map(lkey, m.variables))
                pairs = [(a, b) for a, b in pairs if lkey(a) in present]      # see report: pyBQM KeyError on absent keys
            con = "ORelabelPy" if t.name == "obj" else "ORelabel"
            coq = f"({con} {clist([cpair(cnat(T.idx(a)), cnat(T.idx(b))) for a, b in pairs])})"
            inplace = op[2] if len(op) > 2 else True
            if inplace:
                hobj.relabel_variables(dict(pairs))
            else:
                before, _ = observe(m)
                new = m.relabel_variables(dict(pairs), inplace=False)
                after, _ = observe(m)
                if before != after:
                    raise AssertionError("relabel_variables(inplace=False) changed the original model")
                t.m = new
                t.stale = None
        elif name == "relabel_ints":
            con = "ORelabelIntsPy" if t.name == "obj" else "ORelabelInts"
            # the table ids of the python ints 0..n-1 (at least as many as there are variables)
            coq = f"({con} {clist([cnat(T.idx(i)) for i in range(max(len(INTS), len(m.variables)))])})"
            inplace = op[1] if len(op) > 1 else True
            before_labels = list(m.variables)
            if inplace:
                _, back = hobj.relabel_variables_as_integers()
            else:
                before, _ = observe(m)
                new, back = m.relabel_variables_as_integers(inplace=False)
                after, _ = observe(m)
                if before != after:
                    raise AssertionError("relabel_variables_as_integers(inplace=False) changed the original model")
                t.m = new
                t.stale = None
            chk = t.m.copy() if not is_qm(t.m) else copy.deepcopy(t.m)
            chk.relabel_variables(back)
            if sorted(map(lkey, chk.variables)) != sorted(map(lkey, before_labels)):
                raise AssertionError("mapping returned by relabel_variables_as_integers does not restore the labels")
        elif name == "scale":
            k = F(op[1])
            if op[2] is None:
                coq = f"(OScale {cq(k)} [] [] false)"
                if via in ("self_update", "self_iadd") and k == 2 and hobj is m:
                    if via == "self_update":
                        m.update(m)
                    elif m.__iadd__(m) is not m:
                        raise AssertionError("__iadd__ did not return the model itself")
                elif via in ("self_isub", "self_isub_alias") and k == 0 and hobj is m:
                    alias = m if via == "self_isub" else [m][0]
                    if m.__isub__(alias) is not m:
                        raise AssertionError("__isub__ did not return the model itself")
                elif via == "imul":
                    if hobj.__imul__(float(k)) is not hobj:
                        raise AssertionError("__imul__ did not return the model itself")
                elif via == "itruediv" and k != 0 and bits(1 / k) <= 1:
                    if hobj.__itruediv__(float(1 / k)) is not hobj:
                        raise AssertionError("__itruediv__ did not return the model itself")
                else:
                    hobj.scale(float(k))
            else:
                coq = (f"(OScale {cq(k)} {clist([N(v) for v in op[2]])} "
                       f"{clist([cpair(N(u), N(v)) for u, v in op[3]])} {cbool(op[4])})")
                # an empty ignored list must still take the looping path only when the code does
                hobj.scale(float(k), ignored_variables=as_form([L(v) for v in op[2]], f0) if (op[2] or op[3] or op[4]) else None,
                           ignored_interactions=as_form([(L(u), L(v)) for u, v in op[3]], f1) if (op[2] or op[3] or op[4]) else None,
                           ignore_offset=bool(op[4]))
        elif name == "update":
            o = op[1]
            okind = "qm" if o.get("dtype") == "qm" else "bqm"
            if o.get("store_other") and o.get("dtype") != "qm":
                # described in the view's vartype: stored in the other one (exact for the generated dyadic biases)
                tmp = build(o, o.get("dtype", "f64"))
                other = tmp.change_vartype('BINARY' if tmp.vartype is Vartype.SPIN else 'SPIN', inplace=False)
            else:
                other = build(o, o.get("dtype", "f64"))
            if o.get("as_view") and not is_qm(other):
                other = getattr(other, o["as_view"])
                coq = f"(OUpdate {coq_state_of_bqm(other, T)})"       # the operand as the view shows it
            else:
                coq = f"(OUpdate {coq_state(o, T, okind)})"
            if via == "iadd" and ((is_qm(m) and is_qm(other)) or (not is_qm(m) and not is_qm(other) and
                                                                  (other.num_variables == 0 or other.vartype is hobj.vartype))):
                if hobj.__iadd__(other) is not hobj:
                    raise AssertionError("__iadd__ did not return the model itself")
            else:
                hobj.update(other)
        elif name == "set_offset":
            if via in ("iadd", "isub", "add_offset"):
                # offset += b / model += b / model -= b / deprecated add_offset(b): getter then setter on the same handle
                cur = F(hobj.offset)
                b = F(op[1])
                coq = f"(OSetOffset {cq(cur - b if via == 'isub' else cur + b)})"
                if via == "iadd":
                    hobj.__iadd__(fl(b))
                elif via == "isub":
                    hobj.__isub__(fl(b))
                elif not is_qm(m):
                    hobj.add_offset(fl(b))
                else:
                    hobj.offset += fl(b)
            else:
                coq = f"(OSetOffset {cq(F(op[1]))})"
                hobj.offset = fl(op[1])
        elif name == "resize":
            old = list(m.variables)
            try:
                m.resize(int(op[1]))
            finally:
                fresh = list(m.variables)[len(old):]
                coq = f"(OResize {cz(op[1])} {clist([cnat(T.idx(v)) for v in fresh])})"
        elif name == "clear":
            coq = "OClear"
            hobj.clear()
        elif name == "change_vartype":
            coq = f"(OChangeVartype {op[1]})"
            inplace = op[2] if len(op) > 2 else True
            if inplace:
                m.change_vartype(op[1], inplace=True)
            else:
                before, _ = observe(m)
                new = m.change_vartype(op[1], inplace=False)
                after, _ = observe(m)
                if before != after:
                    raise AssertionError("change_vartype(inplace=False) changed the original model")
                t.m = new
                t.stale = None
        elif name == "fix":
            coq = f"(OFix {N(op[1])} {cq(F(op[2]))})"
            if via == "plural_dict":
                hobj.fix_variables({L(op[1]): fl(op[2])})
            elif via == "plural_pairs":
                hobj.fix_variables(as_form([(L(op[1]), fl(op[2]))], "iter"))
            else:
                hobj.fix_variable(L(op[1]), fl(op[2]))
        elif name == "q_add_variable":
            coq = f"(OQAddVariable {op[1]} {N(op[2])} {oq(op[3])} {oq(op[4])})"
            m.add_variable(op[1], L(op[2]), lower_bound=op[3], upper_bound=op[4])
        elif name == "q_add_linear_dflt":
            coq = f"(OQAddLinearDflt {N(op[1])} {cq(F(op[2]))} {op[3]} {oq(op[4])} {oq(op[5])})"
            m.add_linear(L(op[1]), fl(op[2]), default_vartype=op[3], default_lower_bound=op[4], default_upper_bound=op[5])
        elif name == "q_add_linear_from_dflt":
            if op[2] is None:
                # no default vartype: the default bounds are passed on to add_linear but never used
                coq = f"(OAddLinearFrom {clist([cpair(N(v), cq(F(b))) for v, b in op[1]])})"
            else:
                coq = (f"(OQAddLinearFromDflt {clist([cpair(N(v), cq(F(b))) for v, b in op[1]])} {op[2]} {oq(op[3])} {oq(op[4])})")
            m.add_linear_from(as_form([(L(v), fl(b)) for v, b in op[1]], f0), default_vartype=op[2],
                              default_lower_bound=op[3], default_upper_bound=op[4])
        elif name == "q_add_variables_from":
            coq = f"(OQAddVariablesFrom {op[1]} {clist([N(v) for v in op[2]])})"
            m.add_variables_from(op[1], as_form([L(v) for v in op[2]], f0))
        elif name == "q_add_vars_from_model":
            o = op[1]
            other = build(o, o.get("dtype", "f64"))
            if op[2] is None:
                coq = f"(OQAddVariablesFrom {o['vartype']} {clist([N(vv[0]) for vv in o['vars']])})"
                m.add_variables_from_model(other)
            else:
                rec = [vv for vv in o["vars"] if lkey(dec_label(vv[0])) == lkey(dec_label(op[2]))][0]
                if rec[1] in ("SPIN", "BINARY"):
                    coq = f"(OQAddVariable {rec[1]} {N(op[2])} None None)"
                else:
                    coq = f"(OQAddVariable {rec[1]} {N(op[2])} {oq(rec[2])} {oq(rec[3])})"
                m.add_variables_from_model(other, variables=as_form([L(op[2])], f0))
        elif name == "q_change_vartype":
            coq = f"(OQChangeVartype {op[1]} {N(op[2])})"
            m.change_vartype(op[1], L(op[2]))
        elif name == "q_set_lb":
            coq = f"(OQSetLb {N(op[1])} {cq(F(op[2]))})"
            m.set_lower_bound(L(op[1]), op[2])
        elif name == "q_set_ub":
            coq = f"(OQSetUb {N(op[1])} {cq(F(op[2]))})"
            m.set_upper_bound(L(op[1]), op[2])
        else:
            raise RuntimeError("unknown op " + name)
    except AssertionError:
        raise
    except Exception as e:   # noqa
        exc = e
        if view_keyerror and isinstance(e, KeyError):
            exc = ValueError(*e.args)          # documented translation of the mapping views (del linear[v], del quadratic[u, v])
        elif view_keyerror and isinstance(e, ValueError):
            raise AssertionError(f"del through the mapping view raised ValueError instead of KeyError: {e}")
    return coq, hterm, exc


COMPOSITE = {"fix_many", "normalize", "eq_constraint"}


def expand_composite(m, op, T, hvartype=None):
    """-> (list of (Coq op, function applying the primitive to a model), function applying the composite call).
    The primitives are the documented meaning of the composite call, in the order its loop makes them."""
    name = op[0]
    N = lambda l: cnat(T.idx(l))
    if name == "fix_many":
        items = [(dec_label(v), F(a)) for v, a in op[1]]
        prims = [(f"(OFix {N(v)} {cq(a)})", (lambda mm, v=v, a=a: mm.fix_variable(v, float(a)))) for v, a in items]
        if op[2] == "dict":
            comp = lambda mm: mm.fix_variables({v: float(a) for v, a in items})
        else:
            comp = lambda mm: mm.fix_variables((v, float(a)) for v, a in items)
        return prims, comp
    if name == "normalize":
        j, jq, iv, ii, io = op[1], op[2], [dec_label(v) for v in op[3]], [(dec_label(u), dec_label(v)) for u, v in op[4]], bool(op[5])
        ivk = set(map(lkey, iv))
        iik = set(frozenset((lkey(u), lkey(v))) for u, v in ii)
        ml = max([abs(F(b)) for v, b in m.linear.items() if lkey(v) not in ivk] + [Fraction(0)])
        mq = max([abs(F(b)) for (u, v), b in m.quadratic.items() if frozenset((lkey(u), lkey(v))) not in iik] + [Fraction(0)])
        big = max(ml, mq)
        if big == 0:
            k = Fraction(1)
            kwargs = {"bias_range": 1.0}
        elif jq is None:
            k = Fraction(2) ** j
            kwargs = {"bias_range": float(big * k)}
        else:
            # separate ranges: linear biases fit ml * 2**j, quadratic ones mq * 2**jq; the smaller factor wins
            cands = ([Fraction(2) ** j] if ml else []) + ([Fraction(2) ** jq] if mq else [])
            k = min(cands)
            kwargs = {"bias_range": float(ml * Fraction(2) ** j) if ml else 1.0,
                      "quadratic_range": float(mq * Fraction(2) ** jq) if mq else 1.0}
        coq = (f"(OScale {cq(k)} {clist([N(v) for v in iv])} {clist([cpair(N(u), N(v)) for u, v in ii])} {cbool(io)})")
        prim = lambda mm: mm.scale(float(k), ignored_variables=set(iv), ignored_interactions=set(ii), ignore_offset=io)

        def comp(mm):
            got = mm.normalize(ignored_variables=list(iv) if iv else None, ignored_interactions=list(ii) if ii else None,
                               ignore_offset=io, **kwargs)
            if got is not None and F(got) != k:
                raise AssertionError(f"normalize({kwargs}) returned the scale factor {got}, expected {k}")
        return [(coq, prim)], comp
    if name == "eq_constraint":
        terms = [(dec_label(v), F(a)) for v, a in op[1]]
        lam, c = F(op[2]), F(op[3])
        spin = (hvartype if hvartype is not None else m.vartype) is Vartype.SPIN
        prims = []

        def add_off(delta):
            # `offset += delta` as an absolute assignment computed on the model the primitive is applied to
            return ("OFFSET", delta)
        for i, (u, a) in enumerate(terms):
            for jx in range(i, len(terms)):
                v, b = terms[jx]
                if i == jx:
                    if spin:
                        prims.append((f"(OAddLinear {N(u)} {cq(2 * lam * a * c)})", (lambda mm, u=u, x=2 * lam * a * c: mm.add_linear(u, float(x)))))
                        prims.append(add_off(lam * a * a))
                    else:
                        prims.append((f"(OAddLinear {N(u)} {cq(lam * a * (2 * c + a))})",
                                      (lambda mm, u=u, x=lam * a * (2 * c + a): mm.add_linear(u, float(x)))))
                elif lkey(u) == lkey(v):
                    # two occurrences of one variable: 2*lam*a*b*x*x
                    if spin:
                        prims.append(add_off(2 * lam * a * b))
                    else:
                        prims.append((f"(OAddLinear {N(u)} {cq(2 * lam * a * b)})",
                                      (lambda mm, u=u, x=2 * lam * a * b: mm.add_linear(u, float(x)))))
                else:
                    prims.append((f"(OAddQuadratic {N(u)} {N(v)} {cq(2 * lam * a * b)})",
                                  (lambda mm, u=u, v=v, x=2 * lam * a * b: mm.add_quadratic(u, v, float(x)))))
        prims.append(add_off(lam * c * c))
        comp = lambda mm: mm.add_linear_equality_constraint([(v, float(a)) for v, a in terms], float(lam), float(c))
        return prims, comp
    raise RuntimeError(name)


def run_composite(t, op, T, hname="base"):
    """the composite call on the model, its documented primitive sequence on a deep copy.
    -> (intermediate [(Coq op, dump)], (Coq op of the last primitive, exception of the composite call), handle term) or None
    eq_constraint may be issued through a .spin / .binary handle: then the primitives are made through the same handle of
    the deep copy (the constraint is stated over the handle's variables)"""
    via = hname in ("spin", "binary") and op[0] == "eq_constraint" and not is_qm(t.m)
    hof = (lambda mm: getattr(mm, hname)) if via else (lambda mm: mm)
    prims, comp = expand_composite(t.m, op, T, hof(t.m).vartype if via else None)
    clone = copy.deepcopy(t.m)
    seq = []
    exc = None
    for pr in prims:
        if pr[0] == "OFFSET":
            new = F(hof(clone).offset) + pr[1]
            coq, fn = f"(OSetOffset {cq(new)})", (lambda mm, x=new: setattr(mm, "offset", float(x)))
        else:
            coq, fn = pr
        try:
            fn(hof(clone))
        except Exception as e:   # noqa
            exc = e
        seq.append((coq, observe(clone)[0]))
        if exc is not None:
            break
    rexc = None
    try:
        comp(hof(t.m))
    except AssertionError:
        raise
    except Exception as e:   # noqa
        rexc = e
    if outcome_term(rexc) != outcome_term(exc):
        raise AssertionError(f"{op[0]} ended with {outcome_term(rexc)} ({rexc!r}) but its primitive sequence with {outcome_term(exc)} ({exc!r})")
    if not seq:
        return None
    return seq[:-1], (seq[-1][0], rexc), (t.hterm(hof(t.m)) if via else "Direct")


def outcome_term(exc):
    if exc is None:
        return "Ok"
    return f"(Raised {BUCKET.get(exc_bucket(exc), 'BOther')})"


def run_case(c):
    kind = c["kind"]
    avoid = bool(c.get("avoid_known"))
    T = LabelTable(INTS)
    targets = [Target(n, c["init"], not avoid) for n in (["qm"] if kind == "qm" else ["f64", "f32", "obj"])]
    py_fail = None
    for t in targets:
        if t.fail and py_fail is None:
            py_fail = f"[{t.name}] initial model: {t.fail}"
    insync = True
    feats = {"kind": kind}
    if c.get("tag"):
        feats["tag"] = c["tag"]
    ops_seen, raised_seen = set(), set()
    nontrivial = False
    done = 0
    for st in c["steps"]:
        op, h = st["op"], st.get("h", "base")
        name = op[0]
        if name == "capture":
            for t in targets:
                if not is_qm(t.m):
                    t.stale = t.m.spin if op[1] == "spin" else t.m.binary
            continue
        recs = []
        pres = {}
        skip = False
        for t in targets:
            try:
                if name in COMPOSITE:
                    rc = run_composite(t, op, T, h)
                    if rc is None:
                        skip = True
                        break
                    pres[t.name], (coq, exc), hterm = rc
                else:
                    coq, hterm, exc = run_op(t, h, op, T, avoid, st.get("form") or (), st.get("via"))
            except AssertionError as e:
                return {"py_fail": f"[{t.name}] {name}: {e}", "features": {"kind": kind, "op": name, "target": t.name}}
            d, fail = observe(t.m, not avoid)
            recs.append((t, coq, hterm, exc, d, fail))
        if skip:
            continue
        # float exactness guard: stop the history before a value needs more bits than the narrowest dtype keeps exactly
        wide = False
        for t, coq, hterm, exc, d, fail in recs:
            lim = F32_BITS if t.name == "f32" else F64_BITS
            if width(d) > lim or any(width(dd) > lim for _c, dd in pres.get(t.name, [])):
                wide = True
        if wide:
            feats["cut_for_precision"] = True
            break
        done += 1
        ops_seen.add(name + (":" + st["via"] if st.get("via") else ""))
        for t, coq, hterm, exc, d, fail in recs:
            if fail and py_fail is None:
                py_fail = f"[{t.name}] after step {done} ({name} via {h}): {fail}"
                feats.update({"op": name, "target": t.name, "via": h})
            out = outcome_term(exc)
            for pcoq, pd in pres.get(t.name, []):
                # primitives of a composite call: intermediate states as its documented meaning reaches them (on a deep copy)
                t.steps.append(f"(mkStep {hterm if name == 'eq_constraint' else 'Direct'} {pcoq} Ok {coq_dump(pd, T)})")
            t.steps.append(f"(mkStep {hterm} {coq} {out} {coq_dump(d, T)})")
            t.prev = d
            if exc is None:
                nontrivial = True
            else:
                raised_seen.add(name)
        # the three storage back-ends are indistinguishable (order of the dict back-end aside)
        if kind == "bqm" and py_fail is None:
            (t0, _, _, e0, d0, _), (t1, _, _, e1, d1, _), (t2, _, _, e2, d2, _) = recs
            if outcome_term(e0) != outcome_term(e1) or d0 != d1:
                py_fail = f"float64 and float32 back-ends differ after step {done} ({name} via {h}): {outcome_term(e0)} {d0} vs {outcome_term(e1)} {d1}"
                feats.update({"op": name, "target": "f64/f32", "via": h})
            elif insync:
                def norm(d):
                    return (sorted((lkey(v), vt, lb, ub) for v, vt, lb, ub in d["info"]), sorted((lkey(v), b) for v, b in d["lin"]),
                            sorted((tuple(sorted((lkey(u), lkey(v)))), b) for (u, v), b in d["quad"]), d["off"], d["nint"], d["islin"])
                if outcome_term(e0) != outcome_term(e2) or norm(d0) != norm(d2):
                    py_fail = (f"float64 and object back-ends differ after step {done} ({name} via {h}): "
                               f"{outcome_term(e0)} {d0} vs {outcome_term(e2)} {d2}")
                    feats.update({"op": name, "target": "f64/obj", "via": h})
                if [lkey(x[0]) for x in d0["info"]] != [lkey(x[0]) for x in d2["info"]]:
                    insync = False     # dict order departed (relabel moves to the end): order dependent calls may now differ
    terms = []
    for t in targets:
        init = coq_state(c["init"], T, kind)
        terms.append(f"(mkCase {cnat(len(T))} true {init} {coq_dump(t.d0, T)} {clist(t.steps)})")
    # the label table is only complete now: patch c_n (it was rendered last, so it is already final)
    return {"coq": terms[0], "extra_coq": terms[1:], "py_fail": py_fail, "nontrivial": nontrivial and done > 0,
            "features": feats, "kind": kind,
            "observed": {"ops": sorted(ops_seen), "raised": sorted(raised_seen), "steps_run": done}}


if __name__ == "__main__":
    wlib.main(gen_case, run_case)
