PID = "C07"
WORKER = "w_c07"
HEADER = "From Coq Require Import List ZArith QArith Qcanon.\nFrom Dimod Require Import Base.Util Model.Poly Model.HPoly Model.Samples Model.Comb Model.Feas Model.Solve Model.Deferred Model.ParseInit Model.ChkC07.\nImport ListNotations."
CHECK_FN = "check"
N_QUICK = 960
N_THOROUGH = 12000
SHARD = 60
SHRINK_KEYS = ["layers"]
RULE = ("random problems with <= 6 variables and dyadic biases (BQM via sample/sample_ising/sample_qubo incl. QUBO self-loops, "
        "binary polynomials via sample_poly/sample_hising/sample_hubo incl. constant terms, DQMs, CQMs with BINARY/SPIN/INTEGER "
        "variables, negative and non-integral bounds and constraints marked discrete whose variables also occur elsewhere) are run through stacks of the reference samplers "
        "(ExactSolver, ExactPolySolver, ExactDQMSolver, ExactCQMSolver, RandomSampler, SimulatedAnnealingSampler, IdentitySampler, "
        "NullSampler, harness samplers implementing only sample_ising / only sample_qubo, stacked up to three deep, answering with plain sample sets "
        "or with sample sets built on futures - pending / done concurrent Futures, future-likes with and without .done, explicit result hooks, "
        "nonblocking_sample_method; the reference samplers and ExactPolySolver also behind a future) and composites (Truncate, Tracking, "
        "Structure, HigherOrder, PolyScale, PolyTruncate, PolyFixedVariable) with random options (n / sorted_by / aggregate, penalty_strength / "
        "keep_penalty_variables / discard_unsatisfied, scalar / bias_range / poly_range / ignored_terms, fixed_variables, initial states, label pools "
        "that are sortable or not); every layer's input and output "
        "is recorded; a case is non-trivial when the problem has at least one variable; distinct by canonical JSON of the case")
TRUSTED = ["translator translators/sampleset_deferred.py (fail-closed ast translation of SampleSet.change_vartype's `not inplace` and `not self.done()` branches - which of (vartype, energy_offset) each recursive call forwards -, from_future's default hook, resolve, done, the resolving property getters, nonblocking_sample_method's wrapper and the last statement of Sampler.sample into Gen/Gen_Deferred.v)",
           "model: coq/theories/Model/Deferred.v (future-backed sample sets), Model/ParseInit.v (parse_initial_states with infer_vartype, SimulatedAnnealingSampler's argument tests) - hand written, tied by this correspondence",
           "harness futures LazyFuture / BareFuture / SetFuture and wrappers AsyncBase / AsyncPolyBase in harness/w_c07.py (a recorder hands a pending sample set on inside from_future(SetFuture) with the default hook: transparent for done() and for the resolved value, Proofs/DeferredFacts.v recorder_transparent)",
           "translator translators/exact_hoc_rules.py (fail-closed ast translation of exact_solver.py's domain constructions range(2) / [-1,1] / range(ceil(lb), floor(ub)+1) / range(num_cases), the bits->spins map, and HigherOrderComposite.sample_poly / polymorph_response defaults into Gen/Gen_ExactHoc.v; _graycode, _all_cases_cqm, _all_cases_dqm, ExactSolver.sample, penalty_satisfaction, polymorph_response pinned by shape)",
           "translator translators/polyscale_rule.py (fail-closed ast translation of BinaryPolynomial.normalize/scale and PolyScaleComposite.sample_poly into Gen/Gen_PolyScale.v: initial extrema, length tests, update expressions, inv_scalar formula, scale factor, ratio scalar, un-scaling)",
           "model: coq/theories/Model/Solve.v, ChkC07.v, Comb.v, Poly.v, HPoly.v, Samples.v (hand written, tied by this correspondence)",
           "harness recorders Rec/PolyRec/IsingOnly/QuboOnly in harness/w_c07.py (snapshot what each layer received and returned)",
           "float arithmetic of the implementation is exact on the generated dyadic data (normalisation factors are kept powers of two by the generator)"]
ASSUMPTIONS = ["the coefficients a problem object reports define the submitted problem (C01)",
               "IEEE-754 arithmetic is exact on the small dyadic coefficients generated",
               "make_quadratic's reduction itself is C15's subject; here only the energies/labels of the returned sample set are decided against the submitted polynomial"]
PARTIAL = ["RandomSampler / SimulatedAnnealingSampler / IdentitySampler('random'): WHICH rows the PRNG / annealing schedule produces is not modelled (numpy's Mersenne twister, random.uniform); everything else is: parse_initial_states code-shaped incl. infer_vartype on raw states, the conversion between vartypes, label test, num_reads, the none/tile/random generators, truncation, from_samples_bqm (C07_infer_vartype_spec, C07_parse_initial_states_honest, C07_parse_initial_states_values_in_domain - every returned value lies in the model's domain given only that the DRAWN rows do -, C07_parse_initial_states_rejects_unknown_values, C07_identity_none_tile_exact, C07_identity_random_prefix), SimulatedAnnealingSampler's argument tests (C07_sa_validate_spec) and its energy bookkeeping on whatever spins the annealer ends in (C07_sa_search_agnostic_energy); all compared exactly on every returned set",
           "future-backed sample sets: done-ness is an observed input of the model (a future's state is not computed); real pending Futures are only put below the non-blocking mixins (a composite that reads its child's answer would block for ever); SampleSet.change_vartype(inplace=False) is pinned by the translator and proved (C07_deferred_change_vartype_copy) but not run - nothing in scope calls it",
           "TruncateComposite / PolyTruncateComposite with sorted_by='energy': SampleSet.slice calls np.argsort with the default (unstable) kind - the source requests kind='stable' only in SampleSet.data(index=True), which nothing in scope uses - so the order among equal energies is deliberately NOT modelled; C07_truncate_any_ascending_order proves that every ascending ordering has the model's energy column and keeps only the child's pairs, which is exactly what the correspondence compares (energy column exactly, rows as a sub-multiset of the child's (energy,row) pairs)",
           "IdentitySampler's documented rejections (ValueError) are compared with the model's None; any other exception of a valid stack is a violation",
           "PolyScaleComposite with improper ranges: one-sided guarantees are proved (C07_normalize_one_sided), the two-sided range rule is REFUTED there (C07_normalize_improper_range_refuted: unattainable range, negative factor for an inverted range - energies stay correct); a zero bound is a ZeroDivisionError in the implementation, modelled as None and compared (C07_polyscale_call_raises)",
           "ExactCQMSolver: only hard constraints are generated; soft-constraint energies and violation details belong to C08 (the feasibility column is tied to C08's definition by C07_exact_cqm_feasible_column)",
           "StructureComposite's 'child untouched on rejection' is stated on the functional model as independence from the child and observed through the recorder below the composite (zero calls)"]
