"""C06 worker: evaluate random symbolic-arithmetic expression trees with the real
operator overloads (in-place and reflected forms included), observe class, variable
table, coefficients or the exception bucket, and re-observe every operand after
every operator.

Coverage of the property text, clause by clause (stream -> what it reaches):
  constructors  Binary/Spin/Integer/Real (single, with bias, dtype f64/f32/object, explicit or default bounds),
                Binaries/Spins/Integers/Reals (plural), BinaryArray/SpinArray/IntegerArray (+ ndarray.dot)      [tree]
  operators     + - * / unary - + ** quicksum sum(), each binary one also in place, `x op= x` on one object,
                reflected forms via numbers on the left                                                       [tree]
  numbers       int, float, np.float64, np.float32, np.int64, fractions.Fraction (a Number that is neither
                float nor numpy), bool (0/1); zero divisors; non-2 powers                                      [tree]
  mixtures      pre-built BQM (BINARY/SPIN, three dtypes, possibly empty), QM (two dtypes), CQM objective /
                constraint views - also of CQMs that hold a second expression over shared and over further
                variables, registered before or after the viewed one                                          [tree]
  x*x, s*s, i*i products of linear operands with repeated labels of every kind; REAL interactions refused      [tree]
  promotion     the result's vartype/bounds of every variable all operands agree on are compared with the
                operands' (py_fail `varinfo_changed`) and with the model's table                              [tree, bounds]
  conflicts     a clashing vartype or clashing bounds for a shared label (7% + 7% per operand)                [tree]
                bounds that are equal or differ in exactly one bound or in both, the differing bound being 0,
                the other bound (lb == ub), one step away, negative, or default; either operand carries
                either; ONE operator per case: + - * += -= *= quicksum sum (a+k)*(k*b-k) (a+-c)*b b*(a+-c)
                and <= / >= between two models                                                                [bounds]
                QuadraticModel.add_variable on an existing label (the merge step of QM.__mul__): bound omitted /
                None / equal / different (0, other bound, +-step), vartype as str or Vartype, same or not;
                outcome bucket and that nothing changes                                                       [addvar]
  operands unmodified   every pool operand re-observed after every operator, also after a raising one; a failing
                in-place operator must leave its receiver unchanged                                           [all]
  comparisons   model <=/>=/== number, number on the left, models on both sides, stored via add_constraint    [cmp]
Not reached: labels that are equal but of different type (1 / 1.0 / True); decimal.Decimal and complex numbers
(complex is accepted by + and - with the imaginary part dropped under a numpy ComplexWarning - reported);
bounds beyond 2**53; object-dtype QMs (do not exist)."""
import copy
import itertools
import random
from fractions import Fraction
import numpy as np
import dimod

import wlib
from wlib import cq, clist, cnat, cpair
import gen
from gen import F, enc_label, dec_label, LabelTable

F32, F64 = np.float32, np.float64
NUMT = (int, float, np.number, Fraction)
DT = {'f64': np.float64, 'f32': np.float32, 'obj': object}
KINDS = ['BINARY', 'BINARY', 'SPIN', 'SPIN', 'INTEGER', 'INTEGER', 'REAL']
KCOQ = {'BINARY': 'KBin', 'SPIN': 'KSpin', 'INTEGER': 'KInt', 'REAL': 'KReal'}


# --------------------------------------------------------------------------- generation
def rand_bounds(rng, k):
    """explicit bounds include 0 on either side, negative upper bounds and lb == ub (`if bound:` instead of
    `if bound is not None:` is a classic slip, and a degenerate interval is a corner of every comparison)"""
    if k == 'INTEGER':
        if rng.random() < 0.3:
            return None, None
        lb = rng.choice([0, 0, -2, 1, -5, -3, -1])
        return lb, lb + rng.choice([0, 1, 2, 3, 5, 6])
    if k == 'REAL':
        if rng.random() < 0.4:
            return None, None
        lb = rng.choice([0, -1, -0.5, -2.5, -2])
        return lb, lb + rng.choice([0, 0.5, 1, 2, 2.5])
    return None, None


def bound_variants(rng, k, lb, ub):
    """bounds for the SAME label in another operand: equal, or differing in exactly one bound / in both, the
    differing bound being 0, the other bound (degenerate interval), one step away, or left at its default"""
    step = 1 if k == 'INTEGER' else 0.5
    lb0 = 0 if lb is None else lb
    r = rng.random()
    if r < 0.34:
        return lb, ub
    if ub is None:
        ub_alt = [lb0, lb0 + 3, 0 if lb0 <= 0 else lb0 + 1]
    else:
        ub_alt = [0 if lb0 <= 0 else ub + step, lb0, ub + step, ub - step if ub - step >= lb0 else ub + 2 * step, None]
    lb_alt = [0 if (ub is None or ub >= 0) else lb0 - step, lb0 - step, lb0 - 3 * step,
              ub if ub is not None else lb0 - 2 * step]
    if r < 0.62:
        return lb, rng.choice(ub_alt)
    if r < 0.88:
        return rng.choice(lb_alt), ub
    nl, nu = rng.choice(lb_alt), rng.choice(ub_alt)
    if nu is not None and nl > nu:
        nl = nu
    return nl, nu


def small(rng, f32=False):
    return rng.dyadic(3 if f32 else 4, 1)


def gen_universe(rng):
    n = rng.randint(1, 5)
    uni = []
    for l in gen.rand_labels(rng, n):
        k = rng.choice(KINDS)
        lb, ub = rand_bounds(rng, k)
        uni.append([enc_label(l), k, lb, ub])
    return uni


def perturb(rng, ent):
    """occasionally a different kind / different bounds for the same label"""
    l, k, lb, ub = ent
    r = rng.random()
    if r < 0.07:
        k2 = rng.choice([x for x in ('BINARY', 'SPIN', 'INTEGER', 'REAL') if x != k])
        lb2, ub2 = rand_bounds(rng, k2)
        return [l, k2, lb2, ub2]
    if r < 0.14 and k in ('INTEGER', 'REAL'):
        lb2, ub2 = rand_bounds(rng, k)
        return [l, k, lb2, ub2]
    return [l, k, lb, ub]


def gen_operand(rng, uni):
    r = rng.random()
    if r < 0.55:
        l, k, lb, ub = perturb(rng, rng.choice(uni))
        ctor = rng.choice(['single', 'single', 'single', 'plural', 'array'])
        if ctor != 'single':
            lb = ub = None
        if k in ('BINARY', 'SPIN'):
            dt = rng.choice(['f64'] * 8 + ['f32', 'obj'])
        else:
            dt = rng.choice(['f64'] * 9 + ['f32'])
        bias = '1' if rng.random() < 0.8 else str(small(rng))
        if ctor != 'single':
            bias = '1'
        return {"form": "var", "kind": k, "label": l, "lb": lb, "ub": ub, "dtype": dt, "ctor": ctor, "bias": bias}
    if r < 0.70:
        vt = rng.choice(['BINARY', 'SPIN'])
        dt = rng.choice(['f64', 'f64', 'f32', 'obj'])
        ents = [e for e in uni if e[1] == vt and rng.random() < 0.8]
        if rng.random() < 0.08:
            ents += [e for e in uni if e[1] != vt][:1]
        vars_ = [[e[0], vt, None, None] for e in ents]
        return {"form": "bqm", "vartype": vt, "dtype": dt, "desc": gen_desc(rng, vars_, dt == 'f32')}
    ents = [perturb(rng, e) for e in uni if rng.random() < 0.6]
    if r < 0.85:
        dt = rng.choice(['f64', 'f64', 'f64', 'f32'])
        return {"form": "qm", "dtype": dt, "desc": gen_desc(rng, ents, dt == 'f32')}
    o = {"form": "view", "which": rng.choice(['objective', 'constraint']), "desc": gen_desc(rng, ents, False)}
    if rng.random() < 0.5:
        # the parent CQM has a second expression (the objective for a constraint view and vice versa) over some
        # of the same variables and over variables the viewed expression does not contain
        have = {str(e[0]) for e in ents}
        xe = [e for e in ents if rng.random() < 0.5] + [e for e in uni if str(e[0]) not in have and rng.random() < 0.6]
        o["extra"] = gen_desc(rng, xe, False)
    return o


def gen_desc(rng, vars_, f32):
    lin = [[v[0], str(small(rng, f32) if rng.random() > 0.15 else Fraction(0))] for v in vars_]
    quad = []
    if rng.random() < 0.45:
        for i in range(len(vars_)):
            for j in range(i, len(vars_)):
                ki, kj = vars_[i][1], vars_[j][1]
                if 'REAL' in (ki, kj):
                    continue
                if i == j and ki != 'INTEGER':
                    continue
                if rng.random() < 0.35:
                    b = small(rng, f32) if rng.random() > 0.15 else Fraction(0)
                    quad.append([vars_[i][0], vars_[j][0], str(b)])
    off = small(rng, f32) if rng.random() < 0.6 else Fraction(0)
    return {"vars": vars_, "lin": lin, "quad": quad, "off": str(off)}


def gen_num(rng):
    v = rng.choice([0, 1, 2, 3, -1, -2, Fraction(1, 2), Fraction(-3, 2), Fraction(5, 2)])
    if Fraction(v).denominator == 1:
        t = rng.choice(['int', 'int', 'float', 'np64', 'npint', 'frac'] + (['bool', 'bool'] if v in (0, 1) else []))
    else:
        t = rng.choice(['float', 'float', 'np64', 'np32', 'frac'])
    return {"op": "num", "v": str(v), "t": t}


def gen_tree(rng, depth, npool, uni):
    if depth == 0 or rng.random() < 0.28:
        if rng.random() < 0.8:
            return {"op": "ref", "i": rng.randrange(npool)}
        return gen_num(rng)
    r = rng.random()
    sub = lambda: gen_tree(rng, depth - 1, npool, uni)
    if r < 0.24:
        return {"op": "add", "a": sub(), "b": sub(), "inplace": rng.random() < 0.3}
    if r < 0.44:
        return {"op": "sub", "a": sub(), "b": sub(), "inplace": rng.random() < 0.3}
    if r < 0.70:
        return {"op": "mul", "a": sub(), "b": sub(), "inplace": rng.random() < 0.3}
    if r < 0.77:
        if rng.random() < 0.88:
            # divisors are powers of two (or zero) so that 1/other is exact
            b = {"op": "num", "v": str(rng.choice([1, 2, 4, -2, Fraction(1, 2), 2, 0])), "t": rng.choice(['int', 'float', 'np64'])}
            if Fraction(b["v"]).denominator != 1:
                b["t"] = 'float'
        else:
            b = {"op": "ref", "i": rng.randrange(npool)}
        return {"op": "div", "a": sub(), "b": b, "inplace": rng.random() < 0.3}
    if r < 0.80:
        return {"op": "neg", "a": sub()}
    if r < 0.83:
        # the same object on both sides of an in-place operator: x += x, x -= x, x *= x
        return {"op": "iself", "k": rng.choice(["add", "sub", "mul"]), "a": sub()}
    if r < 0.85:
        return {"op": "pos", "a": sub()}
    if r < 0.92:
        return {"op": "pow", "a": sub(), "n": 2 if rng.random() < 0.9 else rng.choice([0, 1, 3])}
    if r < 0.97:
        return {"op": rng.choice(["quicksum", "quicksum", "pysum"]), "items": [sub() for _ in range(rng.randint(0, 3))]}
    k = rng.choice(['BINARY', 'SPIN', 'INTEGER'])
    ents = [e for e in uni if e[1] == k and e[2] is None][:3] or [[enc_label('zz'), k, None, None]]
    return {"op": "arrdot", "kind": k, "labels": [e[0] for e in ents],
            "coeffs": [str(small(rng)) for _ in ents], "dtype": 'f64'}


def gen_cmp_case(rng):
    uni = gen_universe(rng)
    pool = [gen_operand(rng, uni) for _ in range(rng.randint(1, 3))]
    side = lambda: gen_tree(rng, rng.randint(0, 2), len(pool), uni)
    # a numpy scalar on the LEFT of <= / >= / == answers itself (np.bool_) instead of deferring to the
    # model's reflected operator - numpy's semantics, not dimod's; literals are Python numbers here
    lit = lambda: {"op": "num", "v": str(rng.dyadic(6, 1)), "t": rng.choice(['int', 'float'])}
    for n in (0,):
        pass
    r = rng.random()
    if r < 0.6:
        a, b = side(), lit()
    elif r < 0.9:
        a, b = lit(), side()
    else:
        a, b = side(), side()
    for x in (a, b):
        if x["op"] == "num" and Fraction(x["v"]).denominator != 1:
            x["t"] = 'float' if x["t"] == 'int' else x["t"]
    sense = rng.choice(['<=', '>=', '==']) if (a["op"] == "num") != (b["op"] == "num") else rng.choice(['<=', '>='])
    return {"kind": "cmp", "uni": uni, "pool": pool, "a": a, "b": b, "sense": sense, "sseed": rng.randrange(1 << 30)}


BOUNDS_SHAPES = ['add', 'sub', 'mul', 'iadd', 'isub', 'imul', 'quicksum', 'pysum', 'affmul', 'mulsum', 'cmp']


def gen_bounds_case(rng):
    """stream `bounds`: two or three operands that share an INTEGER / REAL label, each with its own explicit
    bounds (equal, or differing in one bound or both: 0, negative, lb == ub, default), combined by ONE operator
    in a random operand order - every operator's rejection of conflicting bounds, for either operand"""
    k = rng.choice(['INTEGER', 'INTEGER', 'INTEGER', 'REAL'])
    labels = gen.rand_labels(rng, rng.randint(1, 3))
    lb, ub = rand_bounds(rng, k)
    uni = [[enc_label(labels[0]), k, lb, ub]]
    for l in labels[1:]:
        k2 = rng.choice(KINDS)
        b2 = rand_bounds(rng, k2)
        uni.append([enc_label(l), k2, b2[0], b2[1]])
    pool = []
    npool = rng.randint(2, 3)
    keep_base = rng.randrange(npool)          # one operand carries the base bounds, so conflicts are pairwise
    for pi in range(npool):
        nl, nu = (lb, ub) if (pi == keep_base or rng.random() < 0.3) else bound_variants(rng, k, lb, ub)
        if nu is not None and (0 if nl is None else nl) > nu:
            nl, nu = lb, ub               # never an invalid interval: the operands themselves must build
        ent = [uni[0][0], k, nl, nu]
        others = [e for e in uni[1:] if rng.random() < 0.4]
        r = rng.random()
        if r < 0.5 and not others:
            dt = 'f64' if rng.random() < 0.9 else 'f32'
            pool.append({"form": "var", "kind": k, "label": ent[0], "lb": nl, "ub": nu, "dtype": dt,
                         "ctor": 'single', "bias": '1' if rng.random() < 0.7 else str(small(rng))})
        elif r < 0.9:
            vs = [ent] + others
            rng.shuffle(vs)
            d = gen_desc(rng, vs, False)
            if rng.random() < 0.8:
                d["quad"] = []            # linear, so that products reach the variable merge
            pool.append({"form": "qm", "dtype": 'f64', "desc": d})
        else:
            d = gen_desc(rng, [ent] + others, False)
            pool.append({"form": "view", "which": rng.choice(['objective', 'constraint']), "desc": d})
    i, j = rng.sample(range(len(pool)), 2)
    A, B = {"op": "ref", "i": i}, {"op": "ref", "i": j}
    sh = rng.choice(BOUNDS_SHAPES)
    if sh in ('add', 'sub', 'mul'):
        tree = {"op": sh, "a": A, "b": B, "inplace": False}
    elif sh in ('iadd', 'isub', 'imul'):
        tree = {"op": sh[1:], "a": A, "b": B, "inplace": True}
    elif sh in ('quicksum', 'pysum'):
        items = [A, B] + ([{"op": "ref", "i": rng.randrange(len(pool))}] if rng.random() < 0.3 else [])
        tree = {"op": sh, "items": items}
    elif sh == 'affmul':
        tree = {"op": "mul", "a": {"op": "add", "a": A, "b": gen_num(rng), "inplace": False},
                "b": {"op": "sub", "a": {"op": "mul", "a": gen_num(rng), "b": B, "inplace": False}, "b": gen_num(rng),
                      "inplace": False}, "inplace": False}
    elif sh == 'mulsum':
        other = {"op": "ref", "i": rng.randrange(len(pool))}
        tree = {"op": "mul", "a": {"op": rng.choice(["add", "sub"]), "a": A, "b": other, "inplace": False}, "b": B,
                "inplace": False}
        if rng.random() < 0.5:
            tree["a"], tree["b"] = tree["b"], tree["a"]
    else:
        return {"kind": "cmp", "stream": "bounds", "uni": uni, "pool": pool, "a": A, "b": B,
                "sense": rng.choice(['<=', '>=']), "sseed": rng.randrange(1 << 30)}
    return {"stream": "bounds", "uni": uni, "pool": pool, "tree": tree, "sseed": rng.randrange(1 << 30)}


def gen_addvar_case(rng):
    """stream `addvar`: QuadraticModel.add_variable(vartype, label, lower_bound=.., upper_bound=..) on labels the
    model already has - the entry point through which QM.__mul__ merges the variables of its operands.  Each
    bound is omitted, passed as None, equal to the existing one, or different (0, the other bound, one step
    away); the vartype is given as a string, a Vartype member or occasionally a different one."""
    n = rng.randint(1, 4)
    vars_ = []
    for l in gen.rand_labels(rng, n):
        k = rng.choice(['INTEGER', 'INTEGER', 'INTEGER', 'REAL', 'REAL', 'BINARY', 'SPIN'])
        lb, ub = rand_bounds(rng, k)
        vars_.append([enc_label(l), k, lb, ub])
    desc = gen_desc(rng, vars_, False)
    calls = []
    for _ in range(rng.randint(1, 4)):
        l, k, lb, ub = rng.choice(vars_)
        vt = k if rng.random() < 0.85 else rng.choice(['INTEGER', 'REAL', 'BINARY', 'SPIN'])
        step = 0.5 if vt == 'REAL' else 1

        def pick(have, other):
            r = rng.random()
            if r < 0.25:
                return "omit"
            if r < 0.32:
                return "none"
            if r < 0.62:
                return "same"
            base = 0 if have is None else have
            return rng.choice([0, 0, base + step, base - step, -base if base else step, other if other is not None else 2])
        calls.append({"label": l, "vt": vt, "vtform": rng.choice(['str', 'enum', 'lower']),
                      "lb": pick(lb, ub), "ub": pick(ub, lb)})
    return {"kind": "addvar", "desc": desc, "dtype": rng.choice(['f64', 'f64', 'f64', 'f32']), "calls": calls}


def gen_case(rng, tier):
    r0 = rng.random()
    if r0 < 0.12:
        return gen_cmp_case(rng)
    if r0 < 0.24:
        return gen_bounds_case(rng)
    if r0 < 0.29:
        return gen_addvar_case(rng)
    uni = gen_universe(rng)
    pool = [gen_operand(rng, uni) for _ in range(rng.randint(1, 4))]
    tree = gen_tree(rng, rng.randint(1, 4), len(pool), uni)
    if tree["op"] in ("ref", "num"):
        tree = {"op": rng.choice(["add", "mul", "sub"]), "a": tree, "b": gen_tree(rng, 1, len(pool), uni), "inplace": False}
    return {"uni": uni, "pool": pool, "tree": tree, "sseed": rng.randrange(1 << 30)}


# --------------------------------------------------------------------------- building operands
CTOR1 = {'BINARY': dimod.Binary, 'SPIN': dimod.Spin, 'INTEGER': dimod.Integer, 'REAL': dimod.Real}
CTORN = {'BINARY': dimod.Binaries, 'SPIN': dimod.Spins, 'INTEGER': dimod.Integers, 'REAL': dimod.Reals}
CTORA = {'BINARY': dimod.BinaryArray, 'SPIN': dimod.SpinArray, 'INTEGER': dimod.IntegerArray}


def build_qm_desc(desc, dtype):
    qm = dimod.QuadraticModel(dtype=dtype)
    for l, vt, lb, ub in desc["vars"]:
        kw = {}
        if vt in ('INTEGER', 'REAL'):
            if lb is not None:
                kw["lower_bound"] = lb
            if ub is not None:
                kw["upper_bound"] = ub
        qm.add_variable(vt, dec_label(l), **kw)
    for l, b in desc["lin"]:
        qm.add_linear(dec_label(l), float(F(b)))
    for u, v, b in desc["quad"]:
        qm.add_quadratic(dec_label(u), dec_label(v), float(F(b)))
    qm.offset = float(F(desc["off"]))
    return qm


def build_operand(o, keep):
    f = o["form"]
    if f == "var":
        k, l, dt = o["kind"], dec_label(o["label"]), DT[o["dtype"]]
        if o["ctor"] == 'single':
            kw = {}
            if k in ('INTEGER', 'REAL'):
                if o["lb"] is not None:
                    kw["lower_bound"] = o["lb"]
                if o["ub"] is not None:
                    kw["upper_bound"] = o["ub"]
            return CTOR1[k](l, float(F(o["bias"])), dtype=dt, **kw)
        if o["ctor"] == 'plural' or k == 'REAL':
            m, = CTORN[k]([l], dtype=dt)
            return m
        arr = CTORA[k]([l], dtype=dt)
        keep.append(arr)
        return arr[0]
    if f == "bqm":
        d = dict(o["desc"])
        d["vartype"] = o["vartype"]
        d["vars"] = [[l, o["vartype"], a, b] for l, _, a, b in d["vars"]]
        return gen.build_bqm(d, dtype=DT[o["dtype"]])
    if f == "qm":
        return build_qm_desc(o["desc"], DT[o["dtype"]])
    qm = build_qm_desc(o["desc"], np.float64)
    cqm = dimod.ConstrainedQuadraticModel()
    keep.append(cqm)
    extra = build_qm_desc(o["extra"], np.float64) if "extra" in o else None
    if o["which"] == 'objective':
        if extra is not None and o["extra"]["vars"] and len(o["extra"]["vars"]) % 2:
            cqm.add_constraint_from_model(extra, '>=', rhs=0, label='cx')     # registered BEFORE the objective
            extra = None
        cqm.set_objective(qm)
        if extra is not None:
            cqm.add_constraint_from_model(extra, '>=', rhs=0, label='cx')
        return cqm.objective
    if extra is not None:
        cqm.set_objective(extra)
    lab = cqm.add_constraint_from_model(qm, '<=', rhs=1, label='c0')
    return cqm.constraints[lab].lhs


def vinfo(m):
    out = []
    if isinstance(m, dimod.BinaryQuadraticModel):
        lb, ub = (0, 1) if m.vartype is dimod.BINARY else (-1, 1)
        for v in m.variables:
            out.append([enc_label(v), m.vartype.name, str(lb), str(ub)])
    else:
        for v in m.variables:
            out.append([enc_label(v), m.vartype(v).name, gen.fs(m.lower_bound(v)), gen.fs(m.upper_bound(v))])
    return out


def observe(m):
    o = gen.observe(m)
    o["info"] = vinfo(m)
    if isinstance(m, dimod.BinaryQuadraticModel):
        o["cls"] = "BQM:" + m.vartype.name
    elif isinstance(m, dimod.QuadraticModel):
        o["cls"] = "QM"
    else:
        o["cls"] = "VIEW"
    return o


def mknum(n):
    v = F(n["v"])
    t = n["t"]
    if t == 'int':
        return int(v)
    if t == 'float':
        return float(v)
    if t == 'np64':
        return np.float64(float(v))
    if t == 'np32':
        return np.float32(float(v))
    if t == 'npint':
        return np.int64(int(v))
    if t == 'frac':
        return Fraction(v)          # numbers.Rational: a Number that is neither float nor numpy scalar
    if t == 'bool':
        return bool(v)
    raise RuntimeError(t)


class OperandChanged(Exception):
    pass


class Ev:
    def __init__(self, pool_objs):
        self.pool = pool_objs
        self.snap = [observe(p) for p in pool_objs]
        self.keep = []
        self.flags = {}

    def check_pool(self, where):
        for i, p in enumerate(self.pool):
            now = observe(p)
            if now != self.snap[i]:
                raise OperandChanged(f"operand #{i} changed during {where}: {self.snap[i]} -> {now}")

    def ev(self, n):
        op = n["op"]
        if op == "ref":
            return self.pool[n["i"]]
        if op == "num":
            return mknum(n)
        if op in ("add", "sub", "mul", "div"):
            a = self.ev(n["a"])
            b = self.ev(n["b"])
            if op == "div" and isinstance(b, NUMT) and b == 0:
                # numpy scalars divide by zero to inf with a warning; that is numpy's business
                b = float(b)
                if isinstance(a, np.number):
                    a = float(a)
            if n.get("inplace"):
                if any(a is p for p in self.pool) and isinstance(a, (dimod.BinaryQuadraticModel, dimod.QuadraticModel)):
                    a = copy.deepcopy(a)   # views define no in-place operator, so they need no protection
                before = observe(a) if hasattr(a, 'variables') else None
                try:
                    if op == "add":
                        a += b
                    elif op == "sub":
                        a -= b
                    elif op == "mul":
                        a *= b
                    else:
                        a /= b
                except Exception:
                    # a rejected in-place operation must leave its receiver as it was
                    if before is not None and observe(a) != before:
                        self.flags["failed_inplace_modified_receiver"] = f"{op}=: {before} -> {observe(a)}"
                    raise
                r = a
            else:
                if op == "add":
                    r = a + b
                elif op == "sub":
                    r = a - b
                elif op == "mul":
                    r = a * b
                else:
                    r = a / b
            self.check_pool(op)
            return r
        if op == "iself":
            a = self.ev(n["a"])
            if any(a is p for p in self.pool) and isinstance(a, (dimod.BinaryQuadraticModel, dimod.QuadraticModel)):
                a = copy.deepcopy(a)
            before = observe(a) if hasattr(a, 'variables') else None
            try:
                if n["k"] == "add":
                    a += a
                elif n["k"] == "sub":
                    a -= a
                else:
                    a *= a
            except Exception:
                if before is not None and observe(a) != before:
                    self.flags["failed_inplace_modified_receiver"] = f"self {n['k']}=: {before} -> {observe(a)}"
                raise
            self.check_pool("iself")
            return a
        if op == "neg":
            r = -self.ev(n["a"])
            self.check_pool(op)
            return r
        if op == "pos":
            r = +self.ev(n["a"])
            self.check_pool(op)
            return r
        if op == "pow":
            r = self.ev(n["a"]) ** n["n"]
            self.check_pool(op)
            return r
        if op == "quicksum":
            items = [self.ev(x) for x in n["items"]]
            before = [observe(x) if hasattr(x, 'variables') else None for x in items]
            r = dimod.quicksum(items)
            for x, bfr in zip(items, before):
                if bfr is not None and observe(x) != bfr:
                    raise OperandChanged("quicksum modified one of its arguments")
            self.check_pool(op)
            return r
        if op == "pysum":
            items = [self.ev(x) for x in n["items"]]
            r = sum(items)
            self.check_pool(op)
            return r
        if op == "arrdot":
            arr = CTORA[n["kind"]]([dec_label(l) for l in n["labels"]], dtype=DT[n["dtype"]])
            r = arr.dot(np.array([float(F(c)) for c in n["coeffs"]]))
            return r
        raise RuntimeError("unknown op " + op)


# --------------------------------------------------------------------------- Coq rendering
def c_tab(info, T):
    return clist([f"({cnat(T.idx(l))}, mkVI {vt} {cq(F(lb))} {cq(F(ub))})" for l, vt, lb, ub in info])


def c_poly(o, T):
    lin = clist([cpair(cnat(T.idx(l)), cq(F(b))) for l, b in o["lin"]])
    quad = clist([f"({cnat(T.idx(u))}, {cnat(T.idx(v))}, {cq(F(b))})" for u, v, b in o["quad"]])
    return f"(mkPoly {cq(F(o['off']))} {lin} {quad})"


def c_cls(c):
    return "CQm" if not c.startswith("BQM:") else f"(CBqm {c[4:]})"


def c_leaf(desc, o, T):
    if desc["form"] == "var" and F(desc["bias"]) == 1:
        l, vt, lb, ub = o["info"][0]
        return f"(Var {KCOQ[vt]} {cnat(T.idx(l))} {cq(F(lb))} {cq(F(ub))})"
    body = f"(mkM {c_cls(o['cls']) if o['cls'] != 'VIEW' else 'CQm'} {c_tab(o['info'], T)} {c_poly(o, T)})"
    return f"(View {body})" if o["cls"] == "VIEW" else f"(Mdl {body})"


def c_tree(n, leaves, T):
    op = n["op"]
    if op == "ref":
        return leaves[n["i"]]
    if op == "num":
        return f"(Num {cq(F(n['v']))})"
    if op in ("add", "sub", "mul", "div"):
        return f"({op.capitalize()} {c_tree(n['a'], leaves, T)} {c_tree(n['b'], leaves, T)})"
    if op == "iself":
        t = c_tree(n['a'], leaves, T)
        return f"({n['k'].capitalize()} {t} {t})"
    if op in ("neg", "pos"):
        return f"({op.capitalize()} {c_tree(n['a'], leaves, T)})"
    if op == "pow":
        return f"(Pow {c_tree(n['a'], leaves, T)} {cnat(n['n'])})"
    if op == "quicksum":
        return f"(Quicksum {clist([c_tree(x, leaves, T) for x in n['items']])})"
    if op == "pysum":
        # sum(list): every item is evaluated first, then 0 + x1 + x2 ... - the model's Quicksum over [0; items]
        return f"(Quicksum {clist([f'(Num {cq(0)})'] + [c_tree(x, leaves, T) for x in n['items']])})"
    if op == "arrdot":
        # numpy object dot: sum of elementwise products
        k = n["kind"]
        lb, ub = {'BINARY': (0, 1), 'SPIN': (-1, 1), 'INTEGER': (0, 2 ** 53 - 1)}[k]
        terms = [f"(Mul (Var {KCOQ[k]} {cnat(T.idx(l))} {cq(lb)} {cq(ub)}) (Num {cq(F(c))}))"
                 for l, c in zip(n["labels"], n["coeffs"])]
        t = terms[0]
        for x in terms[1:]:
            t = f"(Add {t} {x})"
        return t
    raise RuntimeError(op)


def domain(vt, lb, ub):
    lb, ub = F(lb), F(ub)
    if vt == 'BINARY':
        return [Fraction(0), Fraction(1)]
    if vt == 'SPIN':
        return [Fraction(-1), Fraction(1)]
    if vt == 'INTEGER':
        return [x for x in (lb, lb + 1, lb + 3) if x <= ub]
    return [x for x in (lb, lb + Fraction(1, 2), lb + 2) if x <= ub]


def leaf_infos(n, snap):
    """(label, vartype, lb, ub) of every variable of every operand the tree really uses"""
    if n["op"] == "ref":
        return list(snap[n["i"]]["info"])
    if n["op"] == "arrdot":
        lb, ub = {'BINARY': (0, 1), 'SPIN': (-1, 1), 'INTEGER': (0, 2 ** 53 - 1)}[n["kind"]]
        return [[l, n["kind"], str(lb), str(ub)] for l in n["labels"]]
    out = []
    for k in ("a", "b"):
        if k in n:
            out += leaf_infos(n[k], snap)
    for x in n.get("items", []):
        out += leaf_infos(x, snap)
    return out


def tree_feats(n, acc):
    acc.add(n["op"] + ("_inplace" if n.get("inplace") else ""))
    for k in ("a", "b"):
        if k in n:
            tree_feats(n[k], acc)
    for x in n.get("items", []):
        tree_feats(x, acc)


SENSE_COQ = {'<=': 'CLe', '>=': 'CGe', '==': 'CEq'}


def run_cmp_case(c):
    """a <sense> b with the real operators, then cqm.add_constraint(comparison): what is stored"""
    keep = []
    pool = [build_operand(o, keep) for o in c["pool"]]
    T = LabelTable([e[0] for e in c["uni"]])
    E = Ev(pool)
    feats = {"kind": "cmp", "sense": c["sense"]}
    py_fail = None
    res, o = None, None
    try:
        a = E.ev(c["a"])
        b = E.ev(c["b"])
        anum = isinstance(a, NUMT)
        bnum = isinstance(b, NUMT)
        if (anum and bnum) or (c["sense"] == '==' and anum == bnum):
            # two numbers, or == between two models: plain Python / is_equal booleans, not comparisons
            return {"coq": None, "features": {"kind": "cmp", "skipped": True}, "nontrivial": False}
        if c["sense"] == '==' and any(type(x).__name__ in ('ObjectiveView', 'ConstraintView') for x in (a, b)):
            return {"coq": None, "features": {"kind": "cmp", "skipped": True}, "nontrivial": False}
        if isinstance(a, np.number):
            a = a.item()      # see gen_cmp_case: numpy scalars on the left do not defer
        comp = (a <= b) if c["sense"] == '<=' else (a >= b) if c["sense"] == '>=' else (a == b)
        E.check_pool("comparison")
        if not isinstance(comp, dimod.sym.Comparison):
            py_fail = f"comparison returned {type(comp).__name__}"
        else:
            cqm = dimod.ConstrainedQuadraticModel()
            lab = cqm.add_constraint(comp, label='k')
            E.check_pool("add_constraint")
            k = cqm.constraints[lab]
            o = observe(k.lhs)
            res = (f"(OCmp {c_tab(o['info'], T)} {gen.coq_obs(o, T)} {SENSE_COQ[k.sense.value]} {cq(F(k.rhs))})")
            feats["result"] = "cmp"
    except OperandChanged as e:
        py_fail = "an operand was modified: " + str(e)
        feats["operand_modified"] = True
    except TypeError:
        res = "(OCErr ETypeError)"
        feats["result"] = "TypeError"
    except ValueError as e:
        res = "(OCErr EValueError)"
        feats["result"] = "ValueError"
        if "cannot be greater than" in str(e) or "cannot be less than" in str(e):
            feats = {"narrow_dtype_bound_limit": True}
        elif "conflicting" in str(e) and "bounds" in str(e) and any(d.get("dtype") == 'f32' for d in c["pool"]):
            feats = {"narrow_dtype_bound_changed": True}
    except ZeroDivisionError:
        res = "(OCErr EZeroDiv)"
        feats["result"] = "ZeroDivisionError"
    except Exception as e:
        py_fail = f"unexpected exception {type(e).__name__}: {e}"
    if py_fail is None:
        try:
            E.check_pool("an operator that raised")
        except OperandChanged as e:
            py_fail = "an operand was modified by an operator that raised: " + str(e)
            feats = {"operand_modified_by_raising_operator": True, "kind": "cmp"}
    if E.flags.get("failed_inplace_modified_receiver"):
        return {"coq": None, "py_fail": "a failing in-place operator modified its receiver: " + E.flags["failed_inplace_modified_receiver"],
                "features": dict(feats, failed_inplace_modified_receiver=True), "nontrivial": True}
    if res is None:
        return {"coq": None, "py_fail": py_fail, "features": feats, "nontrivial": True}
    leaves = [c_leaf(d, s, T) for d, s in zip(c["pool"], E.snap)]
    ta, tb = c_tree(c["a"], leaves, T), c_tree(c["b"], leaves, T)
    samples = []
    if o is not None:
        if any(d.get("dtype") == 'f32' for d in c["pool"]) and any(
                x[1] == 'REAL' and F(x[3]) > 10 ** 30 for x in o["info"]):
            feats = {"narrow_dtype_bound_changed": True}
        doms = [(l, domain(vt, lb, ub)) for l, vt, lb, ub in o["info"]]
        rs = random.Random(c["sseed"])
        total = 1
        for _, d in doms:
            total *= len(d)
        combos = list(itertools.product(*[d for _, d in doms])) if total <= 32 else \
            [tuple(rs.choice(d) for _, d in doms) for _ in range(32)]
        for cb in combos:
            samples.append(clist([cpair(cnat(T.idx(l)), cq(x)) for (l, _), x in zip(doms, cb)]))
    coq = f"(mkCCase {cnat(len(T))} {ta} {SENSE_COQ[c['sense']]} {tb} {res} {clist(samples)})"
    return {"coq": coq, "check_fn": "check_cmp", "py_fail": py_fail, "features": feats,
            "nontrivial": o is not None, "observed": o or {}}


def run_addvar_case(c):
    qm = build_qm_desc(c["desc"], DT[c["dtype"]])
    T = LabelTable([v[0] for v in c["desc"]["vars"]])
    before = observe(qm)
    calls, py_fail = [], None
    feats = {"kind": "addvar", "outcomes": []}
    for k in c["calls"]:
        label = dec_label(k["label"])
        have = [x for x in before["info"] if x[0] == k["label"]][0]
        kw, given = {}, {}
        for key, idx, name in (("lb", 2, "lower_bound"), ("ub", 3, "upper_bound")):
            v = k[key]
            if v == "omit":
                given[key] = None
            elif v == "none":
                kw[name] = None
                given[key] = None
            elif v == "same":
                kw[name] = float(F(have[idx]))
                given[key] = F(have[idx])
            else:
                kw[name] = v
                given[key] = F(v)
        vt = {'str': k["vt"], 'enum': dimod.Vartype[k["vt"]], 'lower': k["vt"]}[k["vtform"]]
        try:
            r = qm.add_variable(vt, label, **kw)
            obs = None
            if r != label or type(r) is not type(label):
                py_fail = f"add_variable on an existing label returned {r!r} instead of {label!r}"
        except TypeError:
            obs = "ETypeError"
        except ValueError:
            obs = "EValueError"
        except Exception as e:
            py_fail = f"unexpected exception {type(e).__name__}: {e}"
            break
        feats["outcomes"].append(obs or "ok")
        if observe(qm) != before:
            py_fail = f"add_variable({k['vt']}, {label!r}, {kw}) on an existing label changed the model: {before} -> {observe(qm)}"
            feats["addvar_modified"] = True
            break
        calls.append(f"(mkAvCall {cnat(T.idx(k['label']))} {k['vt']} {wlib.copt(cq(given['lb']) if given['lb'] is not None else None)} "
                     f"{wlib.copt(cq(given['ub']) if given['ub'] is not None else None)} {wlib.copt(obs)})")
    feats["outcomes"] = sorted(set(feats["outcomes"]))
    coq = f"(mkAvCase {c_tab(before['info'], T)} {clist(calls)})"
    return {"coq": coq, "check_fn": "check_av", "py_fail": py_fail, "features": feats,
            "nontrivial": bool(calls), "observed": {"info": before["info"], "calls": calls}}


def run_case(c):
    if c.get("kind") == "cmp":
        return run_cmp_case(c)
    if c.get("kind") == "addvar":
        return run_addvar_case(c)
    narrowed = False
    keep = []
    pool = [build_operand(o, keep) for o in c["pool"]]
    T = LabelTable([e[0] for e in c["uni"]])
    E = Ev(pool)
    E.keep = keep
    feats = {"root": c["tree"]["op"]}
    forms = sorted({o["form"] + ":" + o.get("dtype", "") for o in c["pool"]})
    py_fail = None
    res = None
    observed = {}
    try:
        r = E.ev(c["tree"])
        if isinstance(r, (dimod.BinaryQuadraticModel, dimod.QuadraticModel)) or type(r).__name__ in ('ObjectiveView', 'ConstraintView'):
            o = observe(r)
            observed = o
            if o['cls'] == 'VIEW':
                res = f"(OView {c_tab(o['info'], T)} {gen.coq_obs(o, T)})"
            else:
                res = f"(OMdl {c_cls(o['cls'])} {c_tab(o['info'], T)} {gen.coq_obs(o, T)})"
            feats["result"] = o["cls"][:3]
            # promotion must keep every variable's vartype and bounds: directly on the observations
            used = leaf_infos(c["tree"], E.snap)
            # signature of the open float32-promotion finding: a bound of a used operand shows up in the
            # result rounded to float32 (e.g. the default REAL bound 1e30 -> 1.0000000150474662e30)
            if any(d.get("dtype") == 'f32' for d in c["pool"]):
                for l, vt, lb, ub in o["info"]:
                    for x in used:
                        if x[0] == l and x[1] == vt and any(
                                F(xb) != F(rb) and F(float(np.float32(float(F(xb))))) == F(rb)
                                for xb, rb in ((x[2], lb), (x[3], ub))):
                            narrowed = True
                            break
                    else:
                        continue
                    break
                else:
                    narrowed = False
            else:
                narrowed = False
            for l, vt, lb, ub in o["info"]:
                have = {tuple(x[1:]) for x in used if x[0] == l}
                if len(have) == 1 and (vt, lb, ub) not in have:
                    py_fail = ("promotion changed the vartype or bounds of a variable that every operand agrees on: "
                               f"{l!r} is {list(have)[0]} in every operand but {(vt, lb, ub)} in the result")
                    if any(d.get("dtype") == 'f32' for d in c["pool"]):
                        feats = {"narrow_dtype_bound_changed": True}
                    else:
                        feats["varinfo_changed"] = True
                    break
        elif isinstance(r, NUMT):
            res = f"(ONum {cq(F(r))})"
            feats["result"] = "num"
            observed = {"num": str(F(r))}
            o = None
        else:
            py_fail = f"result of unexpected type {type(r).__name__}"
            o = None
    except OperandChanged as e:
        py_fail = "an operand was modified: " + str(e)
        feats["operand_modified"] = True
        o = None
    except TypeError as e:
        res, o = "(OErr ETypeError)", None
        feats["result"] = "TypeError"
        observed = {"exc": repr(e)}
    except ValueError as e:
        res, o = "(OErr EValueError)", None
        feats["result"] = "ValueError"
        observed = {"exc": repr(e)}
        if "cannot be greater than" in str(e) or "cannot be less than" in str(e):
            feats["narrow_dtype_bound_limit"] = True
        elif "conflicting" in str(e) and "bounds" in str(e) and any(d.get("dtype") == 'f32' for d in c["pool"]):
            # follow-on symptom of the same defect: a float32 receiver rounded a default REAL bound
            # (1e30 -> 1.0000000150474662e30), a later operand with the true bound then "conflicts"
            used = leaf_infos(c["tree"], E.snap)
            agree = all(len({tuple(y[1:]) for y in used if y[0] == x[0]}) == 1 for x in used)
            if agree:
                feats["narrow_dtype_bound_changed"] = True
    except ZeroDivisionError as e:
        res, o = "(OErr EZeroDiv)", None
        feats["result"] = "ZeroDivisionError"
    except Exception as e:  # any other exception class is outside the documented behaviour
        py_fail = f"unexpected exception {type(e).__name__}: {e}"
        feats["result"] = "other"
        o = None
    if py_fail is None:
        # operands must be intact after a RAISING operator as well
        try:
            E.check_pool("an operator that raised")
        except OperandChanged as e:
            py_fail = "an operand was modified by an operator that raised: " + str(e)
            feats = {"operand_modified_by_raising_operator": True, "root": c["tree"]["op"]}
    if E.flags.get("failed_inplace_modified_receiver"):
        py_fail = "a failing in-place operator modified its receiver: " + E.flags["failed_inplace_modified_receiver"]
        return {"coq": None, "py_fail": py_fail, "features": dict(feats, failed_inplace_modified_receiver=True), "nontrivial": True}
    if res is None:
        return {"coq": None, "py_fail": py_fail, "features": feats, "nontrivial": True}
    leaves = [c_leaf(d, s, T) for d, s in zip(c["pool"], E.snap)]
    expr = c_tree(c["tree"], leaves, T)
    samples = []
    if o is not None:
        doms = [(l, domain(vt, lb, ub)) for l, vt, lb, ub in o["info"]]
        total = 1
        for _, d in doms:
            total *= len(d)
        rs = random.Random(c["sseed"])
        if total <= 32:
            combos = list(itertools.product(*[d for _, d in doms]))
        else:
            combos = [tuple(rs.choice(d) for _, d in doms) for _ in range(32)]
        for cb in combos:
            samples.append(clist([cpair(cnat(T.idx(l)), cq(x)) for (l, _), x in zip(doms, cb)]))
    elif feats.get("result") == "num":
        samples = ["[]"]
    coq = f"(mkCase {cnat(len(T))} {expr} {res} {clist(samples)})"
    ops = set()
    tree_feats(c["tree"], ops)
    observed = dict(observed, ops=sorted(ops), forms=forms)
    if feats.get("narrow_dtype_bound_limit"):
        feats = {"narrow_dtype_bound_limit": True}
    if feats.get("narrow_dtype_bound_changed") or (o is not None and narrowed):
        feats = {"narrow_dtype_bound_changed": True}
    return {"coq": coq, "py_fail": py_fail, "features": feats,
            "nontrivial": feats.get("result") in ("BQM", "QM", "VIE"),
            "observed": observed}


if __name__ == "__main__":
    wlib.main(gen_case, run_case)
