PID = "C05"
WORKER = "w_c05"
HEADER = "From Coq Require Import List ZArith QArith Qcanon.\nFrom Dimod Require Import Base.Util Model.Poly Model.CQMSpec Model.Expr Model.ChkC05.\nImport ListNotations."
CHECK_FN = "check"
N_QUICK = 640
N_THOROUGH = 12000
SHARD = 40
SHRINK_KEYS = ["ops"]
RULE = ("random histories (1-20 operations quick, 1-50 thorough) of public mutations of a real ConstrainedQuadraticModel: "
        "add/remove/fix/flip/retype/relabel variables, set the objective (model or term iterable), add constraints (model copied or "
        "moved, comparison, term iterable, discrete from iterable/model), soft weights, remove/relabel constraints, bounds, deep "
        "copies and inplace=False variants, edits through objective/constraint views, substitute_self_loops (self-loops on INTEGER variables are planted in the objective or a constraint beforehand three times out of four; the mapping the call returns is handed to the specification, which decides which variables must be in it), clear(), from_discrete_quadratic_model (a new model from a random 1-3 variable DQM; the history continues on it); <= 6 variables of mixed vartypes present in "
        "random subsets of the expressions, <= 4 constraints, a few per cent malformed arguments; the generator drives a real model "
        "so that most operations are valid for the state they meet; a case is non-trivial when it has >= 2 operations of >= 2 kinds; "
        "distinct by canonical JSON of the case")
TRUSTED = ["model: coq/theories/Model/CQMSpec.v (plain list of polynomials), Expr.v (index-level expression), ChkC05.v "
           "(hand written, tied by this correspondence)",
           "label bookkeeping (dimod.variables.Variables) behaves as a list of labels (that is property C13)",
           "float arithmetic of the implementation is exact on the generated dyadic data (not verified)"]
ASSUMPTIONS = ["the base quadratic model of an expression (abc.h adjacency) is abstracted to a list of linear biases and a bag of "
               "interactions over local indices (Adj.v is the detailed mirror)",
               "IEEE-754 arithmetic is exact on the small dyadic coefficients generated"]
PARTIAL = ["substitute_self_loops, clear and from_discrete_quadratic_model are modelled at the S level only (CQMSpec.step: SubstSelfLoops carries the mapping the call returned, the specification decides which variables must be in it; theorems C05_substitute_self_loops_*, C05_clear_is_empty, C05_from_dqm_shape); they have no index-level (M) counterpart, so the refinement theorems C05_cqm_refines_spec* do not range over them - they are Python-level compositions of operations that do (add_variable, view add_quadratic / remove_interaction, add_constraint, set_objective); a REAL self-loop (accepted by the term iterables) makes substitute_self_loops raise after adding the new variable - reported finding, kept out of the random stream (feature subst_self_loops_real; the defect itself - a raise that leaves the model altered - is registered under C20, corpus/C20/py_cqm_substitute_self_loops_real.json)",
           "variable order and the ordered interaction list are theorem-level at index level for every history "
           "(C05_cqm_refines_spec_exact); for the labelled model they are stated through the index-level history of resolved "
           "operations it always is (C05_cqm_refines_spec_labels_exact), not against a native order list over labels; the order of "
           "the LINEAR terms inside a specification polynomial (a bag) has no counterpart - the variable order list replaces it",
           "the label layer takes Variables as the list of labels; the duplicate-free guarantee of _relabel is now derived from "
           "C13's model (C05_relabel_keeps_labels_distinct, mapping keys distinct as in a Python dict); the other Variables "
           "operations (append, remove) are used in their list form, which C13 proves for the sparse dicts",
           "cqm_rules.py generates vartype limits, change_vartype / flip constants, the discrete-marker rules, the exception "
           "classes and the weight / penalty table; the bounds checks of set_lower_bound / set_upper_bound and the term-arity "
           "check of the term iterables are still hand written in CQMSpec.v"]
