PID = "C05"
WORKER = "w_c05"
HEADER = "From Coq Require Import List ZArith QArith Qcanon.\nFrom Dimod Require Import Base.Util Model.Poly Model.CQMSpec Model.Expr Model.ChkC05.\nImport ListNotations."
CHECK_FN = "check"
N_QUICK = 640
N_THOROUGH = 12000
SHARD = 40
SHRINK_KEYS = ["ops"]
RULE = ("random histories (1-20 operations quick, 1-50 thorough) of public mutations of a real ConstrainedQuadraticModel: "
        "add/remove/fix/flip/retype/relabel variables, set the objective (model or term iterable), add constraints (model copied or "
        "moved, comparison, term iterable, discrete from iterable/model), soft weights, remove/relabel constraints, bounds, deep "
        "copies and inplace=False variants, edits through objective/constraint views; <= 6 variables of mixed vartypes present in "
        "random subsets of the expressions, <= 4 constraints, a few per cent malformed arguments; the generator drives a real model "
        "so that most operations are valid for the state they meet; a case is non-trivial when it has >= 2 operations of >= 2 kinds; "
        "distinct by canonical JSON of the case")
TRUSTED = ["model: coq/theories/Model/CQMSpec.v (plain list of polynomials), Expr.v (index-level expression), ChkC05.v "
           "(hand written, tied by this correspondence)",
           "label bookkeeping (dimod.variables.Variables) behaves as a list of labels (that is property C13)",
           "float arithmetic of the implementation is exact on the generated dyadic data (not verified)"]
ASSUMPTIONS = ["the base quadratic model of an expression (abc.h adjacency) is abstracted to a list of linear biases and a bag of "
               "interactions over local indices (Adj.v is the detailed mirror)",
               "IEEE-754 arithmetic is exact on the small dyadic coefficients generated"]
PARTIAL = ["the label layer (C05_cqm_refines_spec_labels) takes Variables as the list of labels; that the two sparse dicts of "
           "dimod.variables behave as this list is property C13 (Vars.v/VarsFacts.v); LRelabel carries the explicit guard that the "
           "relabelled list is duplicate-free (what iter_safe_relabels guarantees), not derived from relabel_ok here",
           "refinement is equality of the energy function / of all coefficients (peq); the ORDER of variables inside an expression "
           "and the presence of explicit zero interactions are compared exactly by the correspondence check (index-level replay) "
           "but are not part of the theorem-level refinement relation",
           "the add_constraint weight/penalty table and the exception classes of CQMSpec are hand written (the translator "
           "cqm_rules.py covers vartype limits, change_vartype / flip constants and the discrete-marker rules)"]
