#!/venv/bin/python
"""debug helper: ./harness/dbg.py C13 '<case json>' 'Coq expr using c' ... -> prints vm_compute of expressions"""
import sys, json, os, subprocess, importlib
sys.path.insert(0, os.path.dirname(__file__))
import common as C
pid = sys.argv[1]; case = json.loads(sys.argv[2]) if not os.path.exists(sys.argv[2]) else json.load(open(sys.argv[2]))
case = case.get("case", case)
mod = importlib.import_module(pid.lower())
build = C.ensure_build()
out = C.run_workers(build, mod.WORKER, [{"mode": "replay", "cases": [case]}])[0]
r = out["cases"][0]
print("py_fail:", r.get("py_fail")); print("features:", r.get("features"))
if r.get("coq"):
    p = os.path.join(C.WORK, "dbg.v")
    with open(p, "w") as fh:
        fh.write(mod.HEADER + "\nDefinition c := " + r["coq"] + ".\n")
        fh.write(f"Eval vm_compute in ({r.get('check_fn', mod.CHECK_FN)} c).\n")
        for e in sys.argv[3:]:
            fh.write(f"Eval vm_compute in ({e}).\n")
    print(subprocess.run(["coqc", "-w", "none", "-Q", C.COQ + "/theories", "Dimod", p], capture_output=True, text=True, cwd=C.WORK).stdout)
