"""C18 worker: ordered pairs of models (BQM in three dtypes, BQM vartype views, QM, CQM,
CQM objective / constraint views, numbers, foreign objects); observes is_equal in both
directions, == / != where they mean equality, is_almost_equal for three `places` drawn from
{0,1,2,3,4,5,7,8} (keyword or positional) and for the default.

Coverage of the property text, clause by clause (stream -> what it reaches):
  any mix of BQM/QM/CQM/views   gen_spec forms x forms, `fresh` (unrelated pairs), `none` (same content in
                another representation / dtype), numbers and foreign objects on the right, models swapped 50%
  same labels, vartypes, offset, linear, quadratic   single-field mutations offset / bias / qbias / label /
                vartype / addzero / dropq / zeroq / dropvar / switch (degree-preserving change of the
                interaction set), each by a LARGE difference or by a dyadic difference lying between the
                rounding thresholds of two adjacent `places` (2^-6 ... 2^-26), so every `places` value asked
                is separated from its neighbours and from the default 7
  CQM: constraint labels, senses, rhs   sense / rhs / clabel / cperm / clhs / dropc / addc / soft / penalty /
                discmark / unusedvar; constraints over subsets of the objective's variables AND over a
                variable that occurs in constraints only (`conly`, with or without an interaction)
  order / dtype irrelevance    permute, cperm, bqm64/bqm32/bqmobj/qm/qm32
  totality      disjoint labels of equal shape (`disjoint`), zero-bias variable only on one side with the other
                side's label registered in the parent CQM (`zerovar`), foreign objects, numbers
  reflexive / symmetric   `none` pairs, both directions of is_equal compared with each other and with the spec
  other operand is a number   stream `number`: BQM (3 dtypes, vartype views), QM (2 dtypes), objective / constraint
                views, occasionally a CQM - constant-only (65%) or with variables - against int, float, bool,
                np.int8/16/32/64, np.uint8/16, np.float16/32/64, np.complex64, np.bool_ (not a Number: treated as
                a foreign object), Fraction, Decimal, complex with zero / non-zero imaginary part; value equal to
                the offset or off by a large or tiny amount; is_equal, is_almost_equal (three places + default),
                bool(model == n), model != n, and for non-numpy numbers the reflected n == model, n != model
                (BQM and QM receivers: `==` builds sym.Eq whose truth value is is_equal)
                NOT asked (reported defects of the unchanged tree, cases kept in corpus/C18/_pending):
                is_almost_equal(Decimal) on float-dtype models and is_almost_equal(complex) on an object-dtype BQM
                raise TypeError
  == / !=       BQM receivers against models and foreign objects (the only class where they mean equality there)
Not reached: labels equal across types (1 / 1.0 / True), NaN / inf biases, negative `places`, bounds (outside the
documented scope), is_almost_equal in the b->a direction on the same pair (covered statistically by the swap)."""
import copy
import decimal
import numbers
from fractions import Fraction
import numpy as np
import dimod

import wlib
from wlib import cq, clist, cnat, cpair, copt, cbool
import gen
from gen import F, enc_label, dec_label, LabelTable

FORMS = ['bqm64', 'bqm32', 'bqmobj', 'bqmview', 'qm', 'qm32', 'objview', 'conview', 'cqm']
SENSES = ['<=', '>=', '==']
SCOQ = {'<=': 'Le', '>=': 'Ge', '==': 'Eq'}


def q4(rng):
    return Fraction(rng.randint(-8, 8), rng.choice([1, 1, 2, 4]))


# differences a single-field change makes: large ones (every `places` sees them), and dyadic ones that lie
# between the thresholds of is_almost_equal (0.5 * 10**-places): 2^-6 rounds away at places <= 1, 2^-11 and
# 2^-12 at places <= 3, 3*2^-12 at places <= 2, 2^-26 at places <= 7 (and is lost in float32 storage)
BIG_DELTAS = [Fraction(1, 4), Fraction(1), Fraction(-1, 2)]
TINY_DELTAS = [Fraction(1, 64), Fraction(-1, 2048), Fraction(1, 2048), Fraction(3, 4096), Fraction(1, 4096),
               Fraction(1, 1 << 15), Fraction(1, 1 << 18), Fraction(-1, 1 << 22), Fraction(1, 1 << 22),
               Fraction(1, 1 << 26), Fraction(-1, 1 << 26)]   # every adjacent pair of PLACES_POOL is separated


def delta(rng):
    return rng.choice(BIG_DELTAS) if rng.random() < 0.6 else rng.choice(TINY_DELTAS)


PLACES_POOL = [0, 1, 2, 3, 4, 5, 7, 8]


def rand_desc(rng, single=None, nmin=0, nmax=4):
    n = rng.randint(nmin, nmax)
    labels = gen.rand_labels(rng, n)
    if single is None and rng.random() < 0.5:
        single = rng.choice(['BINARY', 'SPIN'])
    vars_ = []
    for l in labels:
        vt = single or rng.choice(['BINARY', 'SPIN', 'INTEGER', 'REAL'])
        vars_.append([enc_label(l), vt])
    lin = [[v[0], str(q4(rng) if rng.random() > 0.2 else Fraction(0))] for v in vars_]
    quad = []
    for i in range(n):
        for j in range(i, n):
            ki, kj = vars_[i][1], vars_[j][1]
            if 'REAL' in (ki, kj) or (i == j and ki != 'INTEGER'):
                continue
            if rng.random() < 0.4:
                quad.append([vars_[i][0], vars_[j][0], str(q4(rng) if rng.random() > 0.25 else Fraction(0))])
    return {"vars": vars_, "lin": lin, "quad": quad, "off": str(q4(rng) if rng.random() < 0.6 else Fraction(0))}


def is_single(desc):
    return len({v[1] for v in desc["vars"]}) <= 1 and all(v[1] in ('BINARY', 'SPIN') for v in desc["vars"])


def forms_for(desc):
    fs = ['qm', 'qm32', 'objview', 'conview', 'cqm']
    if is_single(desc):
        fs += ['bqm64', 'bqm32', 'bqmobj', 'bqmview'] * 2
    return fs


def rand_constraints(rng, desc):
    cons = []
    conly_vt = rng.choice(['BINARY', 'SPIN', 'INTEGER', 'REAL'])
    for i in range(rng.randint(0, 3)):
        keep = [v for v in desc["vars"] if rng.random() < 0.7]
        ks = {str(v[0]) for v in keep}
        d = {"vars": keep, "lin": [[v[0], str(q4(rng))] for v in keep],
             "quad": [t for t in desc["quad"] if str(t[0]) in ks and str(t[1]) in ks and rng.random() < 0.5],
             "off": str(q4(rng) if rng.random() < 0.3 else Fraction(0))}
        if rng.random() < 0.3:
            # a variable that occurs in this constraint only (not in the objective); the same label in every
            # constraint that has one, so its vartype is consistent across the CQM
            d["vars"] = d["vars"] + [["conly", conly_vt]]
            d["lin"] = d["lin"] + [["conly", str(q4(rng) if rng.random() < 0.8 else Fraction(0))]]
            if d["vars"][0][0] != "conly" and d["vars"][0][1] != 'REAL' and conly_vt != 'REAL' and rng.random() < 0.4:
                d["quad"] = d["quad"] + [[d["vars"][0][0], "conly", str(q4(rng))]]
        cons.append({"label": f"c{i}", "sense": rng.choice(SENSES), "rhs": str(q4(rng)), "lhs": d})
    return cons


def two_switch(rng, quad):
    """degree-preserving change of the interaction SET: replace two disjoint interactions a-b, c-d by
    a-c, b-d (or a-d, b-c) when those are absent; every variable keeps its degree, the number of
    interactions stays the same. Returns (new quad, indices of the two new interactions) or None."""
    key = lambda u, v: frozenset((str(u), str(v)))
    have = {key(t[0], t[1]) for t in quad}
    cands = []
    for i in range(len(quad)):
        for j in range(i + 1, len(quad)):
            a, b = quad[i][0], quad[i][1]
            c, d = quad[j][0], quad[j][1]
            if len({str(a), str(b), str(c), str(d)}) < 4:
                continue
            for (p, q), (r, t) in (((a, c), (b, d)), ((a, d), (b, c))):
                if key(p, q) not in have and key(r, t) not in have:
                    cands.append((i, j, (p, q), (r, t)))
    if not cands:
        return None
    i, j, e1, e2 = rng.choice(cands)
    new = [list(t) for t in quad]
    new[i] = [e1[0], e1[1], quad[i][2]]
    new[j] = [e2[0], e2[1], quad[j][2]]
    return new, (i, j)


def rand_switch_desc(rng):
    """a model with at least two disjoint interactions between non-REAL variables"""
    n = rng.randint(4, 6)
    labels = gen.rand_labels(rng, n)
    single = rng.choice(['BINARY', 'SPIN', None])
    vars_ = [[enc_label(l), single or rng.choice(['BINARY', 'SPIN', 'INTEGER'])] for l in labels]
    lin = [[v[0], str(q4(rng) if rng.random() > 0.2 else Fraction(0))] for v in vars_]
    order = list(range(n))
    rng.shuffle(order)
    pairs = [(order[2 * k], order[2 * k + 1]) for k in range(n // 2)]       # a (near) perfect matching
    extra = [(i, j) for i in range(n) for j in range(i + 1, n) if (i, j) not in pairs and (j, i) not in pairs
             and rng.random() < 0.15]
    zero_side = rng.random() < 0.25
    quad = []
    for i, j in pairs + extra:
        b = Fraction(0) if (zero_side or rng.random() < 0.15) else q4(rng)
        quad.append([vars_[i][0], vars_[j][0], str(b)])
    return {"vars": vars_, "lin": lin, "quad": quad, "off": str(q4(rng) if rng.random() < 0.5 else Fraction(0))}


def switched(rng, spec):
    """copy of `spec` whose interaction set differs while labels, vartypes, linear biases, offset, the
    number of interactions and every variable's degree are the same; the moved interactions (or all
    of them) often carry an explicit zero bias"""
    s = copy.deepcopy(spec)
    targets = [s["desc"]] + [c["lhs"] for c in s.get("cons", [])]
    rng.shuffle(targets)
    done = False
    for d in targets:
        for _ in range(rng.choice([1, 1, 2])):
            r = two_switch(rng, d["quad"])
            if r is None:
                break
            d["quad"], (i, j) = r
            done = True
            z = rng.random()
            if z < 0.45:
                d["quad"][i][2] = d["quad"][j][2] = "0"
            elif z < 0.75:
                for t in d["quad"]:
                    t[2] = "0"
        if done and rng.random() < 0.7:
            break
    s["mut"] = 'switch' if done else 'none'
    return s


def mutate(rng, spec):
    """one single-field change of a copy"""
    s = copy.deepcopy(spec)
    d = s["desc"]
    kinds = ['offset']
    if d["vars"]:
        kinds += ['bias', 'label', 'vartype', 'addzero', 'dropvar', 'permute']
    if d["quad"]:
        kinds += ['qbias', 'dropq', 'zeroq']
    if len(d["quad"]) >= 2:
        kinds += ['switch']
    if s["form"] == 'cqm':
        kinds += ['unusedvar', 'discmark']
        if s["cons"]:
            kinds += ['sense', 'rhs', 'clabel', 'cperm', 'clhs', 'dropc', 'soft', 'penalty'] * 2
        else:
            kinds += ['addc']
    k = rng.choice(kinds)
    s["mut"] = k
    if k == 'offset':
        d["off"] = str(F(d["off"]) + delta(rng))
    elif k == 'bias':
        t = rng.choice(d["lin"])
        t[1] = str(F(t[1]) + delta(rng))
    elif k == 'qbias':
        t = rng.choice(d["quad"])
        t[2] = str(F(t[2]) + delta(rng))
    elif k == 'label':
        old = rng.choice(d["vars"])[0]
        new = enc_label(rng.choice([l for l in gen.LABEL_POOL + ['zz', 11] if str(enc_label(l)) not in {str(v[0]) for v in d["vars"]}]))
        rel = lambda x: new if str(x) == str(old) else x
        relabel_desc(d, rel)
        for c in s.get("cons", []):
            relabel_desc(c["lhs"], rel)
    elif k == 'vartype':
        v = rng.choice(d["vars"])
        old = v[1]
        if is_single(d) and s["form"].startswith('bqm'):
            nv = 'SPIN' if old == 'BINARY' else 'BINARY'
            for w in d["vars"]:
                w[1] = nv
        else:
            v[1] = rng.choice([x for x in ('BINARY', 'SPIN', 'INTEGER') if x != old])
            d["quad"] = [t for t in d["quad"] if not (str(t[0]) == str(t[1]) == str(v[0]) and v[1] != 'INTEGER')]
            for c in s.get("cons", []):
                for w in c["lhs"]["vars"]:
                    if str(w[0]) == str(v[0]):
                        w[1] = v[1]
                c["lhs"]["quad"] = [t for t in c["lhs"]["quad"] if not (str(t[0]) == str(t[1]) == str(v[0]) and v[1] != 'INTEGER')]
    elif k == 'addzero':
        n = len(d["vars"])
        have = {frozenset((str(t[0]), str(t[1]))) for t in d["quad"]}
        cand = [(d["vars"][i], d["vars"][j]) for i in range(n) for j in range(i + 1, n)
                if 'REAL' not in (d["vars"][i][1], d["vars"][j][1])
                and frozenset((str(d["vars"][i][0]), str(d["vars"][j][0]))) not in have]
        if cand:
            a, b = rng.choice(cand)
            d["quad"].append([a[0], b[0], "0"])
        else:
            s["mut"] = 'none'
    elif k == 'dropq':
        d["quad"].remove(rng.choice(d["quad"]))
    elif k == 'zeroq':
        # same interaction set, explicit zero biases
        if all(F(t[2]) == 0 for t in d["quad"]):
            s["mut"] = 'none'
        for t in d["quad"]:
            t[2] = "0"
    elif k == 'switch':
        return switched(rng, spec)
    elif k == 'dropvar':
        v = rng.choice(d["vars"])[0]
        d["vars"] = [w for w in d["vars"] if str(w[0]) != str(v)]
        d["lin"] = [w for w in d["lin"] if str(w[0]) != str(v)]
        d["quad"] = [t for t in d["quad"] if str(v) not in (str(t[0]), str(t[1]))]
        for c in s.get("cons", []):
            e = c["lhs"]
            e["vars"] = [w for w in e["vars"] if str(w[0]) != str(v)]
            e["lin"] = [w for w in e["lin"] if str(w[0]) != str(v)]
            e["quad"] = [t for t in e["quad"] if str(v) not in (str(t[0]), str(t[1]))]
    elif k == 'permute':
        rng.shuffle(d["vars"])
        rng.shuffle(d["lin"])
        rng.shuffle(d["quad"])
        d["quad"] = [[t[1], t[0], t[2]] if rng.random() < 0.5 else t for t in d["quad"]]
    elif k == 'sense':
        c = rng.choice(s["cons"])
        c["sense"] = rng.choice([x for x in SENSES if x != c["sense"]])
    elif k == 'rhs':
        c = rng.choice(s["cons"])
        c["rhs"] = str(F(c["rhs"]) + delta(rng))
    elif k == 'clabel':
        rng.choice(s["cons"])["label"] = 'other'
    elif k == 'cperm':
        rng.shuffle(s["cons"])
    elif k == 'clhs':
        c = rng.choice(s["cons"])
        if c["lhs"]["lin"]:
            t = rng.choice(c["lhs"]["lin"])
            t[1] = str(F(t[1]) + delta(rng))
        else:
            c["lhs"]["off"] = str(F(c["lhs"]["off"]) + 1)
    elif k == 'dropc':
        s["cons"].remove(rng.choice(s["cons"]))
    elif k == 'addc':
        s["cons"].append({"label": "c9", "sense": '<=', "rhs": "1", "lhs": {"vars": [], "lin": [], "quad": [], "off": "0"}})
    elif k == 'soft':
        rng.choice(s["cons"])["weight"] = "2"
    elif k == 'penalty':
        # soft on both sides; weight and (where allowed) penalty kind differ
        c = rng.choice(s["cons"])
        i = s["cons"].index(c)
        spec["cons"][i]["weight"] = "3/2"
        c["weight"] = "2"
        if all(v[1] == 'BINARY' for v in c["lhs"]["vars"]):
            c["penalty"] = 'quadratic'
    elif k == 'unusedvar':
        s["unused"] = [["unused_v", rng.choice(['BINARY', 'SPIN', 'INTEGER', 'REAL'])]]
    elif k == 'discmark':
        spec["disc"] = {"vars": ["disc_1", "disc_2"], "marked": rng.random() < 0.5}
        s["disc"] = {"vars": ["disc_1", "disc_2"], "marked": not spec["disc"]["marked"]}
    return s


def relabel_desc(d, rel):
    d["vars"] = [[rel(v[0]), v[1]] for v in d["vars"]]
    d["lin"] = [[rel(v[0]), v[1]] for v in d["lin"]]
    d["quad"] = [[rel(t[0]), rel(t[1]), t[2]] for t in d["quad"]]


def gen_spec(rng, desc=None):
    desc = desc or rand_desc(rng)
    form = rng.choice(forms_for(desc))
    s = {"kind": "model", "form": form, "desc": desc}
    if form == 'cqm':
        s["cons"] = rand_constraints(rng, desc)
    if form == 'bqmview':
        s["view_of"] = rng.choice(['same', 'other'])
    return s


def zero_variable_pair(rng):
    """equal shapes whose variable sets differ only in a variable with zero linear bias and no interaction;
    the differing variable of each side is registered in the other side's parent CQM (where there is one)"""
    desc = rand_desc(rng, nmax=3)
    a = gen_spec(rng, desc)
    used = {str(v[0]) for v in desc["vars"]}
    fresh = [enc_label(l) for l in gen.LABEL_POOL + ['zz', 11, 13] if str(enc_label(l)) not in used]
    rng.shuffle(fresh)
    lx, lz = fresh[0], fresh[1]
    vt = desc["vars"][0][1] if (is_single(desc) and desc["vars"]) else rng.choice(['BINARY', 'SPIN', 'INTEGER', 'REAL'])
    if a["form"].startswith('bqm') and not desc["vars"]:
        vt = rng.choice(['BINARY', 'SPIN'])
        desc["vartype"] = vt
    b = copy.deepcopy(a)
    for s_, l in ((a, lx), (b, lz)):
        d = s_["desc"]
        pos = rng.randint(0, len(d["vars"]))
        d["vars"].insert(pos, [l, vt])
        d["lin"].insert(pos, [l, "0"])
        for c in s_.get("cons", []):
            if rng.random() < 0.5:
                c["lhs"]["vars"].append([l, vt])
                c["lhs"]["lin"].append([l, "0"])
    a["parent_extra"], b["parent_extra"] = [[lz, vt]], [[lx, vt]]
    if a["form"] == 'cqm':
        a["unused"], b["unused"] = [[lz, vt]], [[lx, vt]]
    else:
        fs = [f for f in forms_for(b["desc"]) if f != 'cqm']
        b["form"] = rng.choice(fs + ['objview', 'conview'] * 3)
        if b["form"] == 'bqmview':
            b["view_of"] = 'same'
        if rng.random() < 0.6:
            a["form"] = rng.choice(['objview', 'conview'])
    b["mut"] = 'zerovar'
    return (a, b) if rng.random() < 0.5 else (b, a)


def gen_case(rng, tier):
    c = gen_pair(rng, tier)
    # the `places` asked of is_almost_equal: three of the pool (so that the thresholds between them are
    # separated by the tiny deltas), given by keyword or positionally; the default (7) is always asked too
    c["places"] = sorted(rng.sample(PLACES_POOL, 3))
    c["pform"] = rng.choice(['kw', 'pos'])
    return c


INT_KINDS = {'int': (-8, 8), 'npi8': (-8, 8), 'npi16': (-8, 8), 'npi32': (-8, 8), 'npi64': (-8, 8), 'npu8': (0, 8),
             'npu16': (0, 8), 'bool': (0, 1), 'npbool': (0, 1)}
FRAC_KINDS = ['float', 'np64', 'np32', 'np16', 'frac', 'dec', 'cplx0', 'cplx', 'npc64']
NUM_FORMS = ['bqm64', 'bqm32', 'bqmobj', 'bqmview', 'qm', 'qm32', 'objview', 'conview']


def number_pair(rng):
    """stream `number`: the "other operand is a number" clause for every model class (constant-only or not) with
    every kind of number - int, float, bool, numpy integer / floating scalars of several widths, numpy bool and
    complex, Fraction, Decimal, complex with zero and non-zero imaginary part - equal or unequal (by a large or a
    tiny amount) to the model's offset"""
    t = rng.choice(list(INT_KINDS) + FRAC_KINDS + ['int', 'float', 'np32', 'npi64', 'frac'])
    form = rng.choice(NUM_FORMS * 3 + ['cqm'])
    if t in INT_KINDS:
        lo, hi = INT_KINDS[t]
        off = Fraction(rng.randint(lo, hi))
    else:
        off = q4(rng) if rng.random() < 0.7 else Fraction(rng.randint(-8, 8))
    if rng.random() < 0.65 and form != 'cqm':
        desc = {"vars": [], "lin": [], "quad": [], "off": str(off)}
        if form.startswith('bqm'):
            desc["vartype"] = rng.choice(['BINARY', 'SPIN'])
    else:
        desc = rand_desc(rng, single=rng.choice(['BINARY', 'SPIN']) if form.startswith('bqm') else None, nmin=1)
        desc["off"] = str(off)
    a = {"kind": "model", "form": form, "desc": desc}
    if form == 'cqm':
        a["cons"] = rand_constraints(rng, desc)
    if form == 'bqmview':
        a["view_of"] = rng.choice(['same', 'other'])
    v = off
    if rng.random() < 0.45:
        if t in INT_KINDS:
            lo, hi = INT_KINDS[t]
            v = off + rng.choice([1, -1, 2])
            if not lo <= v <= hi:
                v = off - 1 if off - 1 >= lo else off + 1
        else:
            v = off + delta(rng)
    return {"a": a, "b": {"kind": "number", "v": str(v), "t": t, "mut": 'number'}, "stream": "number"}


def gen_pair(rng, tier):
    if rng.random() < 0.12:
        return number_pair(rng)
    if rng.random() < 0.10:
        a, b = zero_variable_pair(rng)
        return {"a": a, "b": b}
    if rng.random() < 0.14:
        # same labels / vartypes / linear part / shape / degrees, different interaction sets
        a = gen_spec(rng, rand_switch_desc(rng))
        if a["form"] == 'cqm':
            for c in a["cons"]:
                if rng.random() < 0.6:
                    c["lhs"]["quad"] = copy.deepcopy(a["desc"]["quad"])
                    c["lhs"]["vars"] = copy.deepcopy(a["desc"]["vars"])
                    c["lhs"]["lin"] = [[v[0], str(q4(rng))] for v in a["desc"]["vars"]]
        b = switched(rng, a)
        if b["form"] != 'cqm':
            b["form"] = rng.choice([f for f in forms_for(b["desc"]) if f != 'cqm'])
            if b["form"] == 'bqmview':
                b["view_of"] = rng.choice(['same', 'same', 'other'])
        if rng.random() < 0.5:
            a, b = b, a
        return {"a": a, "b": b}
    a = gen_spec(rng)
    r = rng.random()
    if r < 0.22:      # the same content in another representation
        b = copy.deepcopy(a)
        if a["form"] != 'cqm':
            b["form"] = rng.choice([f for f in forms_for(a["desc"]) if f != 'cqm'])
            if b["form"] == 'bqmview':
                b["view_of"] = rng.choice(['same', 'other'])
        b["mut"] = 'none'
    elif r < 0.62:    # single-field mutation of a copy (possibly in another representation)
        b = mutate(rng, a)
        if b["form"] != 'cqm' and rng.random() < 0.5:
            fs = [f for f in forms_for(b["desc"]) if f != 'cqm']
            b["form"] = rng.choice(fs)
            if b["form"] == 'bqmview':
                b["view_of"] = rng.choice(['same', 'other'])
        if b["form"].startswith('bqm') and not is_single(b["desc"]):
            b["form"] = 'qm'
    elif r < 0.72:    # same shape, disjoint labels
        b = copy.deepcopy(a)
        used = {str(v[0]) for v in a["desc"]["vars"]}
        fresh = [enc_label(l) for l in gen.LABEL_POOL + ['zz', 11, 13, 'yy', 'ww'] if str(enc_label(l)) not in used]
        mp = {str(v[0]): fresh[i] for i, v in enumerate(a["desc"]["vars"])}
        mp['conly'] = 'conly_other'          # the constraint-only variable is relabelled as well
        rel = lambda x: mp[str(x)]
        relabel_desc(b["desc"], rel)
        for c in b.get("cons", []):
            relabel_desc(c["lhs"], rel)
        b["mut"] = 'disjoint'
    elif r < 0.84:    # unrelated model
        b = gen_spec(rng)
        b["mut"] = 'fresh'
    elif r < 0.95:    # number
        off = F(a["desc"]["off"])
        v = off if rng.random() < 0.6 else off + rng.choice([Fraction(1, 4), Fraction(1, 2), 1, Fraction(-3, 4)])
        if rng.random() < 0.5 and a["form"] != 'cqm':
            a["desc"] = {"vars": [], "lin": [], "quad": [], "off": a["desc"]["off"]}
            if a["form"].startswith('bqm'):
                a["desc"]["vartype"] = rng.choice(['BINARY', 'SPIN'])
        b = {"kind": "number", "v": str(v), "t": rng.choice(['int', 'float', 'np64']) if v.denominator == 1 else rng.choice(['float', 'np64'])}
    else:
        b = {"kind": "other", "what": rng.choice(['str', 'none', 'dict', 'list'])}
    if a["form"].startswith('bqm') and not a["desc"]["vars"]:
        a["desc"].setdefault("vartype", rng.choice(['BINARY', 'SPIN']))
    if b.get("kind") == "model" and b["form"].startswith('bqm') and not b["desc"]["vars"]:
        b["desc"].setdefault("vartype", rng.choice(['BINARY', 'SPIN']))
    if rng.random() < 0.5:
        a, b = (b, a) if b.get("kind") == "model" else (a, b)
    return {"a": a, "b": b}


# --------------------------------------------------------------------------- building
def build_qm(desc, dtype=np.float64):
    qm = dimod.QuadraticModel(dtype=dtype)
    for l, vt in desc["vars"]:
        if vt in ('INTEGER', 'REAL'):
            qm.add_variable(vt, dec_label(l), lower_bound=-4, upper_bound=9)
        else:
            qm.add_variable(vt, dec_label(l))
    for l, b in desc["lin"]:
        qm.add_linear(dec_label(l), float(F(b)))
    for u, v, b in desc["quad"]:
        qm.add_quadratic(dec_label(u), dec_label(v), float(F(b)))
    qm.offset = float(F(desc["off"]))
    return qm


def build(s, keep):
    if s["kind"] == "number":
        v = F(s["v"])
        mk = {'int': int, 'float': float, 'np64': np.float64, 'np32': np.float32, 'np16': np.float16,
              'npi8': np.int8, 'npi16': np.int16, 'npi32': np.int32, 'npi64': np.int64, 'npu8': np.uint8,
              'npu16': np.uint16, 'bool': lambda x: bool(int(x)), 'npbool': lambda x: np.bool_(int(x)),
              'frac': Fraction, 'dec': lambda x: decimal.Decimal(x.numerator) / decimal.Decimal(x.denominator),
              'cplx0': lambda x: complex(float(x), 0.0), 'cplx': lambda x: complex(float(x), 1.0),
              'npc64': lambda x: np.complex64(float(x))}[s["t"]]
        if s["t"] in ('int', 'npi8', 'npi16', 'npi32', 'npi64', 'npu8', 'npu16'):
            return mk(int(v))
        if s["t"] in ('float', 'np64', 'np32', 'np16'):
            return mk(float(v))
        return mk(v)
    if s["kind"] == "other":
        return {'str': 'abc', 'none': None, 'dict': {'a': 1}, 'list': [1, 2]}[s["what"]]
    d, f = s["desc"], s["form"]
    if f in ('bqm64', 'bqm32', 'bqmobj', 'bqmview'):
        dd = {"vars": [[l, vt, None, None] for l, vt in d["vars"]], "lin": d["lin"], "quad": d["quad"], "off": d["off"],
              "vartype": d.get("vartype", 'BINARY')}
        dt = {'bqm64': np.float64, 'bqm32': np.float32, 'bqmobj': object, 'bqmview': np.float64}[f]
        bqm = gen.build_bqm(dd, dtype=dt)
        if f == 'bqmview':
            # a vartype view of a base model: either the identity view or the view in the
            # other vartype of a base that was converted so that the view shows `desc`
            if s.get("view_of") == 'other':
                other = 'SPIN' if bqm.vartype is dimod.BINARY else 'BINARY'
                base = bqm.change_vartype(other, inplace=False)
                keep.append(base)
                return base.binary if bqm.vartype is dimod.BINARY else base.spin
            keep.append(bqm)
            return bqm.binary if bqm.vartype is dimod.BINARY else bqm.spin
        return bqm
    if f in ('qm', 'qm32'):
        return build_qm(d, np.float64 if f == 'qm' else np.float32)
    cqm = dimod.ConstrainedQuadraticModel()
    keep.append(cqm)
    # variables the parent CQM knows although the expression itself does not use them
    for l, vt in s.get("parent_extra", []):
        if vt in ('INTEGER', 'REAL'):
            cqm.add_variable(vt, dec_label(l), lower_bound=-4, upper_bound=9)
        else:
            cqm.add_variable(vt, dec_label(l))
    if f == 'objview':
        cqm.set_objective(build_qm(d))
        return cqm.objective
    if f == 'conview':
        lab = cqm.add_constraint_from_model(build_qm(d), '<=', rhs=1, label='k')
        return cqm.constraints[lab].lhs
    cqm.set_objective(build_qm(d))
    for c in s["cons"]:
        kw = {}
        if "weight" in c:
            kw = dict(weight=float(F(c["weight"])), penalty='linear')
        if "weight" in c:
            kw["penalty"] = c.get("penalty", 'linear')
        cqm.add_constraint_from_model(build_qm(c["lhs"]), c["sense"], rhs=float(F(c["rhs"])), label=c["label"], **kw)
    if "disc" in s:
        # the same one-hot constraint, with or without the discrete mark
        labs = [dec_label(l) for l in s["disc"]["vars"]]
        if s["disc"]["marked"]:
            cqm.add_discrete(labs, label='disc')
        else:
            q = dimod.QuadraticModel()
            for l in labs:
                q.add_variable('BINARY', l)
                q.set_linear(l, 1)
            cqm.add_constraint_from_model(q, '==', rhs=1, label='disc')
    for l, vt in s.get("unused", []):
        cqm.add_variable(vt, dec_label(l))
    return cqm


def is_model(x):
    return isinstance(x, (dimod.BinaryQuadraticModel, dimod.QuadraticModel)) or type(x).__name__ in ('ObjectiveView', 'ConstraintView')


def exact_view(x):
    """a conversion view (bqm.spin of a BINARY base) reports converted, possibly inexact, biases"""
    return True


def c_emdl(m, T):
    if isinstance(m, dimod.BinaryQuadraticModel):
        cls = f"(EB {m.vartype.name})"
        vt = lambda v: m.vartype.name
    else:
        cls = "EQ"
        vt = lambda v: m.vartype(v).name
    vars_ = clist([f"({cnat(T.idx(v))}, {vt(v)}, {cq(F(m.get_linear(v)))})" for v in m.variables])
    quad = clist([f"({cnat(T.idx(u))}, {cnat(T.idx(v))}, {cq(F(b))})" for u, v, b in m.iter_quadratic()])
    return f"(mkE {cls} {vars_} {cq(F(m.offset))} {quad})"


def c_obj(x, T, CT):
    if isinstance(x, dimod.ConstrainedQuadraticModel):
        def soft(c):
            w = c.lhs.weight()
            return "None" if w == float('inf') else f"(Some {cq(F(w))})"
        cons = clist([f"({cnat(CT.idx(l))}, mkC {SCOQ[c.sense.value]} {c_emdl(c.lhs, T)} {cq(F(c.rhs))} {soft(c)} "
                      f"{cbool(c.lhs.penalty() == 'quadratic')} {cbool(c.lhs.is_discrete())})"
                      for l, c in x.constraints.items()])
        qv = clist([cpair(cnat(T.idx(v)), x.vartype(v).name) for v in x.variables])
        return f"(OCqm (mkCqm {c_emdl(x.objective, T)} {qv} {cons}))"
    if is_model(x):
        return f"(OModel {c_emdl(x, T)})"
    q = num_value(x)
    if q is not None:
        return f"(ONumber {cq(q)})"
    return "OOther"


def is_num(x):
    """numbers.Number as the implementation tests it; np.bool_ is not one (it is handled like a foreign object)"""
    return isinstance(x, numbers.Number)


def num_value(x):
    """exact rational value of a number object; None for a non-number and for a complex number that is not real
    (which equals no model: a model's offset is real)"""
    if not is_num(x):
        return None
    if isinstance(x, bool):
        return Fraction(int(x))
    if isinstance(x, (complex, np.complexfloating)):
        return Fraction(float(x.real)) if x.imag == 0 else None
    if isinstance(x, decimal.Decimal):
        return Fraction(x)
    return F(x)


def call(f):
    try:
        r = f()
    except Exception as e:
        return ("raised", type(e).__name__ + ": " + str(e)[:120])
    if isinstance(r, (bool, np.bool_)):
        return ("ok", bool(r))
    return ("bad", repr(r)[:80])


def cres(r):
    return "None" if r[0] != "ok" else f"(Some {cbool(r[1])})"


def run_case(c):
    keep = []
    a = build(c["a"], keep)
    b = build(c["b"], keep)
    T, CT = LabelTable(), LabelTable()
    feats = {"a": c["a"].get("form", c["a"]["kind"]), "b": c["b"].get("form", c["b"]["kind"])}
    py_fail = None
    ab = call(lambda: a.is_equal(b))
    has_ba = hasattr(b, 'is_equal')
    ba = call(lambda: b.is_equal(a)) if has_ba else None
    if c.get("pform") == 'pos':
        almost = [(p, call(lambda: a.is_almost_equal(b, p))) for p in c.get("places", (0, 3, 7))]
    else:
        almost = [(p, call(lambda: a.is_almost_equal(b, places=p))) for p in c.get("places", (0, 3, 7))]
    if "places" in c:
        almost.append((7, call(lambda: a.is_almost_equal(b))))       # the documented default
    # reported defects of the unchanged tree, not asked again (see corpus/C18/_pending): is_almost_equal raises
    # TypeError for a decimal.Decimal (float - Decimal) and, on an object-dtype BQM, for a complex number
    # (complex defines no __round__), although is_equal accepts both
    if isinstance(b, decimal.Decimal) or (isinstance(b, (complex, np.complexfloating))
                                          and isinstance(a, dimod.BinaryQuadraticModel) and a.dtype == object):
        if not c.get("ask_known_raising"):
            almost = []
    for tag, r in [("a.is_equal(b)", ab), ("b.is_equal(a)", ba)] + [(f"is_almost_equal(places={p})", r) for p, r in almost]:
        if r is not None and r[0] == "bad":
            py_fail = f"{tag} returned a non-boolean: {r[1]}"
        if r is not None and r[0] == "raised":
            feats["raised"] = r[1].split(":")[0]
    # == and != are equality on BinaryQuadraticModel receivers (for non-numbers)
    if isinstance(a, dimod.BinaryQuadraticModel) and not is_num(b) and ab[0] == "ok":
        eq, ne = call(lambda: a == b), call(lambda: a != b)
        if eq != ab or ne != ("ok", not ab[1]):
            py_fail = f"a == b gave {eq}, a != b gave {ne}, a.is_equal(b) gave {ab}"
            feats["eq_operator"] = True
    # against a number `==` builds a sym.Eq whose truth value is is_equal (BQM and QM receivers); `!=` is its
    # negation (BQM.__ne__; for a QM Python's default __ne__ inverts __eq__).  A Python number, Fraction or Decimal
    # on the LEFT defers to the model's reflected method (numpy scalars answer themselves - numpy's business)
    if isinstance(a, (dimod.BinaryQuadraticModel, dimod.QuadraticModel)) and is_num(b) and ab[0] == "ok":
        feats["num_kind"] = type(b).__name__
        obs = [("bool(a == n)", call(lambda: bool(a == b)), ab[1]), ("a != n", call(lambda: bool(a != b)), not ab[1])]
        if not isinstance(b, (np.generic,)):
            obs += [("bool(n == a)", call(lambda: bool(b == a)), ab[1]), ("n != a", call(lambda: bool(b != a)), not ab[1])]
        for tag, r, want in obs:
            if r != ("ok", want):
                py_fail = f"{tag} gave {r} for n = {b!r} ({type(b).__name__}) although a.is_equal(n) gave {ab}"
                feats["eq_operator_number"] = True
    # open finding: a view's get_linear / vartype answer (0.0 / the CQM's vartype) for a variable of the parent
    # CQM that the expression does not contain, so is_almost_equal accepts models over DIFFERENT labels.
    # Only classified when is_equal itself answered correctly (False both ways).
    def labelsets(x):
        if isinstance(x, dimod.ConstrainedQuadraticModel):
            return [frozenset(map(repr, x.objective.variables))] + \
                   [(repr(l), frozenset(map(repr, k.lhs.variables))) for l, k in sorted(x.constraints.items(), key=lambda t: repr(t[0]))]
        return frozenset(map(repr, x.variables)) if hasattr(x, 'variables') else None
    involved = lambda x: isinstance(x, dimod.ConstrainedQuadraticModel) or type(x).__name__ in ('ObjectiveView', 'ConstraintView')
    if ((involved(a) or involved(b)) and labelsets(a) is not None and labelsets(b) is not None
            and labelsets(a) != labelsets(b) and ab == ("ok", False) and ba in (None, ("ok", False))
            and any(r == ("ok", True) for _, r in almost)):
        feats = {"almost_equal_parent_variable": True}
    ca, cb = c_obj(a, T, CT), c_obj(b, T, CT)
    cba = "None" if ba is None else f"(Some {cres(ba)})"
    calm = clist([cpair(cnat(p), cres(r)) for p, r in almost])
    coq = f"(mkCase {cnat(len(T))} {cnat(len(CT))} {ca} {cb} {cres(ab)} {cba} {calm})"
    if len(feats) > 1:
        feats["mut"] = c["b"].get("mut", c["a"].get("mut", ""))
    return {"coq": coq, "py_fail": py_fail, "features": feats,
            "nontrivial": is_model(a) or isinstance(a, dimod.ConstrainedQuadraticModel),
            "observed": {"ab": ab, "ba": ba, "almost": almost}}


if __name__ == "__main__":
    wlib.main(gen_case, run_case)
