PID = "C04"
WORKER = "w_c04"
HEADER = "From Coq Require Import List ZArith QArith Qcanon.\nFrom Dimod Require Import Base.Util Model.Poly Model.View Model.Hist Model.ChkC04.\nImport ListNotations."
CHECK_FN = "check"
N_QUICK = 1600
N_THOROUGH = 14000
TIMEOUT = 5400
SHARD = 60
SHRINK_KEYS = ["steps"]
RULE = ("random edit histories (1-25 calls quick, 1-60 thorough; 2-7 labels mixing ints, strings and tuples, in a quarter of the histories some int labels passed as numpy integers (those histories have no tuple labels, open finding d8); dyadic biases) of a BQM "
        "run in lock-step on the float64, float32 and object-dtype back-ends (70 %) or of a QM (30 %): add/set/remove linear and "
        "quadratic biases, *_from loops, add_linear_from_array, add_quadratic_from_dense (range labelled, zero diagonal, no growth), "
        "remove_variable (named / pop), contract, flip, fix, relabel (partial, swap, cycle, conflicting; inplace or copy), "
        "relabel_as_integers, scale (with ignored sets), update from another model, offset, resize, clear, change_vartype (inplace or "
        "copy), QM add_variable / bounds / per-variable change_vartype / default_vartype; BQM calls are routed through the base object, "
        "a fresh .spin/.binary handle or a handle captured earlier (stale after change_vartype); ~15 % of the calls raise. Iterable arguments (scale ignored_variables / ignored_interactions, the *_from loops) are passed in varying forms: list, tuple, set, frozenset, dict keys or a one-shot generator. After every "
        "call all read paths are cross-checked in the worker and the dump is compared with the Coq model's step. The cross-check includes to_numpy_vectors with every option combination (variable_order None / reversed / rotated, sort_indices, sort_labels, return_labels) on the base object and on its .spin/.binary handles: every (row label, col label, bias) triple is an interaction with that bias, each exactly once, linear vector in label order. Generated cases avoid "
        "the inputs of the reported defects (kept in corpus/C04); a float history is cut where a value needs more than 17 (float32) / "
        "44 (float64) significant bits; non-trivial = at least one successful call; distinct by case JSON")
TRUSTED = ["translator translators/qm_limits.py (vartypes.h limits table and the shape of cyQM.add_variable checks, fail-closed)", "translator translators/relabel_resize_rules.py (iter_safe_relabels error conditions via ast, resize guards of both back-ends, fail-closed)", "model: coq/theories/Model/Poly.v, View.v, Hist.v, ChkC04.v (hand-written mirror of the public BQM/QM methods and vartypeview.py)",
           "labels chosen by automatic labelling on resize are taken from the implementation (their rule is property C13)",
           "float arithmetic of the implementation is exact on the generated dyadic data (guarded by the significant-bit cut)"]
ASSUMPTIONS = ["IEEE-754 arithmetic is exact on dyadic values that fit the significant-bit guard",
               "Python label equality is modelled by the label table (ints, strings, tuples only; no numeric aliases)"]
PARTIAL = ["C04_qm_flip_is_noop_on_failure needs the side condition that no neighbour is a REAL variable; without it flip_variable is not all-or-nothing (C04_qm_flip_refuted, open finding d9)",
           "C04_backends_indistinguishable covers histories of calls that do not consult the variable order AND do not iterate a neighbourhood in state order (primitive writes, *_from loops, named removals, relabel_variables, offset, clear, plain scale); contract / flip / fix / looping scale / update / change_vartype / set_linear and remove_variable through a translating view build the same polynomial only up to the order of its terms, which needs coefficient equivalence as the relation - not proved, checked per history by the correspondence; pop, resize shrink and relabel_as_integers are characterised by C04_pop_is_remove_last, C04_resize_shrink_keeps_prefix, C04_relabel_ints_is_positional",
           "C04_contract_energy holds for the base object and (C04_contract_energy_same_vartype_handle) for a handle whose vartype coincides with the base's; contraction through a translating .spin/.binary view has atomicity and well-formedness theorems only"]
