"""C20, Python boundary: short-lived child.  Reads a JSON list of calls on stdin; for each call
builds a fresh small model, dumps it, performs the (mostly malformed) call, dumps the model again
and prints one JSON line, flushed - so the parent knows which call killed the interpreter."""
import gc
import json
import sys
import warnings
from fractions import Fraction

warnings.simplefilter("ignore")
import numpy as np   # noqa: E402
import dimod         # noqa: E402

F = Fraction


def fs(x):
    try:
        f = float(x)
    except Exception:
        return repr(x)
    if f != f:
        return "nan"
    if f in (float("inf"), float("-inf")):
        return str(f)
    return str(Fraction(f))


def lab(x):
    return repr(x)


def obs_qm(m):
    return {"vars": [lab(v) for v in m.variables],
            "lin": [[lab(v), fs(b)] for v, b in m.linear.items()],
            "quad": sorted([sorted([lab(u), lab(v)]) + [fs(b)] for (u, v), b in m.quadratic.items()]),
            "off": fs(m.offset),
            "vt": [str(m.vartype(v)) for v in m.variables] if hasattr(m, "lower_bound") and not isinstance(m, dimod.BinaryQuadraticModel) else str(m.vartype),
            "n": m.num_variables, "ni": m.num_interactions}


def obs_cqm(c):
    out = {"obj": obs_qm(c.objective), "vars": [lab(v) for v in c.variables],
           "info": [[str(c.vartype(v)), fs(c.lower_bound(v)), fs(c.upper_bound(v))] for v in c.variables],
           "cons": []}
    for l, con in c.constraints.items():
        out["cons"].append([lab(l), obs_qm(con.lhs), str(con.sense), fs(con.rhs)])
    out["discrete"] = sorted(lab(x) for x in c.discrete)
    return out


def obs_dqm(d):
    cs, lb, (ir, ic, qb), labels = d.to_numpy_vectors()[:4]
    return {"cs": [int(x) for x in cs], "lb": [fs(x) for x in lb], "ir": [int(x) for x in ir], "ic": [int(x) for x in ic],
            "qb": [fs(x) for x in qb], "labels": [lab(x) for x in labels], "nv": d.num_variables(), "nc": d.num_cases(),
            "nvi": d.num_variable_interactions(), "nci": d.num_case_interactions()}


def build(target):
    """a fixed small model per target, with a few interactions"""
    if target in ("bqm64", "bqm32", "bqmobj", "bqm64s"):
        dt = {"bqm64": np.float64, "bqm32": np.float32, "bqmobj": object, "bqm64s": np.float64}[target]
        m = dimod.BinaryQuadraticModel({"a": 1.0, "b": -0.5, "c": 0.25}, {("a", "b"): 2.0, ("b", "c"): -1.5}, 0.75,
                                       "SPIN" if target == "bqm64s" else "BINARY", dtype=dt)
        return m, obs_qm
    if target in ("bqmiso", "bqmiso32", "bqmisoobj", "bqmisos"):
        # a NON-linear model with a degree-0 variable in the middle and at the end of the index range
        dt = {"bqmiso": np.float64, "bqmiso32": np.float32, "bqmisoobj": object, "bqmisos": np.float64}[target]
        m = dimod.BinaryQuadraticModel({"a": 1.0, "iso": -2.5, "b": -0.5, "c": 0.25, "end": 3.0}, {("a", "b"): 2.0, ("b", "c"): -1.5}, 0.75,
                                       "SPIN" if target == "bqmisos" else "BINARY", dtype=dt)
        return m, obs_qm
    if target in ("bqmempty", "bqmlin"):
        m = dimod.BinaryQuadraticModel({} if target == "bqmempty" else {"a": 1.0, "b": -2.0}, {}, 0.5, "BINARY")
        return m, obs_qm
    if target in ("qmiso", "qmempty"):
        m = dimod.QuadraticModel()
        if target == "qmiso":
            m.add_variable("BINARY", "x")
            m.add_variable("INTEGER", "iso", lower_bound=-3, upper_bound=7)
            m.add_variable("SPIN", "s")
            m.add_variable("INTEGER", "i", lower_bound=0, upper_bound=4)
            m.add_variable("REAL", "end", lower_bound=-1, upper_bound=1)
            m.add_linear("iso", 1.5)
            m.add_quadratic("x", "s", 0.5)
            m.add_quadratic("i", "i", 2)
        return m, obs_qm
    if target == "bqmint":   # integer range labels: the array entry points need them
        m = dimod.BinaryQuadraticModel({0: 1.0, 1: -0.5, 2: 0.25}, {(0, 1): 2.0, (1, 2): -1.5}, 0.75, "BINARY")
        return m, obs_qm
    if target in ("qm", "qm32"):
        m = dimod.QuadraticModel(dtype=np.float32 if target == "qm32" else np.float64)
        m.add_variable("BINARY", "x")
        m.add_variable("SPIN", "s")
        m.add_variable("INTEGER", "i", lower_bound=-3, upper_bound=7)
        m.add_variable("REAL", "r", lower_bound=-1.5, upper_bound=4)
        m.add_linear("x", 1.5)
        m.add_linear("i", -2)
        m.add_quadratic("x", "s", 0.5)
        m.add_quadratic("i", "i", 2)
        m.add_quadratic("s", "i", -1)
        m.offset = 0.25
        return m, obs_qm
    if target == "qmint":
        m = dimod.QuadraticModel()
        for t in ("BINARY", "SPIN", "INTEGER"):
            m.add_variable(t)
        m.add_quadratic(0, 1, 1.5)
        m.add_quadratic(2, 2, 0.5)
        return m, obs_qm
    if target == "cqm":
        x, y = dimod.Binary("x"), dimod.Binary("y")
        i = dimod.Integer("i", lower_bound=-2, upper_bound=9)
        s = dimod.Spin("s")
        c = dimod.ConstrainedQuadraticModel()
        c.set_objective(x + 2 * y * i - s + 0.5)
        c.add_constraint(x + y <= 1, label="c0")
        c.add_constraint(i * i - 3 * s >= -2, label="c1")
        c.add_discrete(["d0", "d1", "d2"], label="disc")
        c.add_constraint(2 * x - i == 1, label="soft", weight=2.0, penalty="linear")
        return c, obs_cqm
    if target == "cqmreal":
        # a REAL self-loop, which the term iterables accept (the views' add_quadratic refuses REAL interactions)
        c = dimod.ConstrainedQuadraticModel()
        c.add_variable("REAL", "r", lower_bound=0, upper_bound=1)
        c.add_variable("INTEGER", "i", lower_bound=0, upper_bound=5)
        c.set_objective([("i", "i", 2.0), ("r", 1.0)])
        c.add_constraint_from_iterable([("r", "r", -1.5), ("r", 2.5)], ">=", rhs=-2.5, label="m")
        return c, obs_cqm
    if target == "dqm":
        d = dimod.DiscreteQuadraticModel()
        d.add_variable(3, "u")
        d.add_variable(2, "v")
        d.add_variable(4, "w")
        d.set_linear("u", [1, 2, 3])
        d.set_linear_case("w", 2, -1.5)
        d.set_quadratic("u", "v", {(0, 1): 1.5, (2, 0): -2})
        d.set_quadratic("v", "w", np.arange(8, dtype=float).reshape(2, 4))
        return d, obs_dqm
    raise ValueError(target)


def val(spec):
    """decode an argument spec into a python value"""
    if isinstance(spec, list) and spec and spec[0] == "#":
        tag = spec[1]
        if tag == "nan":
            return float("nan")
        if tag == "inf":
            return float("inf")
        if tag == "-inf":
            return float("-inf")
        if tag == "none":
            return None
        if tag == "arr":
            return np.array(val(spec[2]), dtype=spec[3]) if len(spec) > 3 else np.array(val(spec[2]))
        if tag == "tuple":
            return tuple(val(x) for x in spec[2])
        if tag == "dict":
            return {val(k): val(v) for k, v in spec[2]}
        if tag == "set":
            return set(val(x) for x in spec[2])
        if tag == "obj":
            return object()
        if tag == "big":
            return 2 ** spec[2] + (spec[3] if len(spec) > 3 else 0)
        if tag == "neg":
            return -val(spec[2])
        if tag == "np":
            return getattr(np, spec[2])(spec[3])
        if tag == "bytes":
            return bytes(spec[2])
        if tag == "samples":
            return (np.array(spec[2], dtype=spec[4] if len(spec) > 4 else None), spec[3])
        if tag == "lambda":
            return lambda *a: 0
        if tag == "fn":
            import operator
            return {"max": max, "min": min, "add": operator.add, "mul": operator.mul, "first": (lambda a, b: a)}[spec[2]]
        if tag == "bqm":
            return dimod.BinaryQuadraticModel({"q": 1}, {("q", "a"): 1}, 0, spec[2])
        if tag == "bqmx":
            # a model over the FRESH variable 'qq' and the CQM fixture's 'x' (BINARY there): conflicting when SPIN
            return dimod.BinaryQuadraticModel({"qq": 1, "x": -1}, {("qq", "x"): 1}, 0, spec[2])
        if tag == "sym":
            v = {"x": dimod.Binary("x"), "i": dimod.Integer("i"), "z": dimod.Binary("zz")}[spec[2]]
            return v
        raise ValueError(tag)
    if isinstance(spec, list):
        return [val(x) for x in spec]
    return spec


def resolve(root, path):
    o = root
    for p in path:
        if isinstance(p, list):      # ["item", key]  or  ["call", name, args]
            if p[0] == "item":
                o = o[val(p[1])]
            elif p[0] == "call":
                o = getattr(o, p[1])(*[val(a) for a in p[2]])
        elif p == "@cls":
            o = type(o)
        else:
            o = getattr(o, p)
    return o


def main():
    import os
    if os.environ.get("C20_RLIMIT"):
        import resource
        lim = int(os.environ["C20_RLIMIT"])
        resource.setrlimit(resource.RLIMIT_AS, (lim, lim))
    calls = json.load(sys.stdin)
    for c in calls:
        rec = {"id": c.get("id")}
        try:
            m, ob = build(c["target"])
            before = ob(m)
        except Exception as e:   # harness problem, not the implementation's
            rec["setup_error"] = repr(e)
            print(json.dumps(rec), flush=True)
            continue
        print(json.dumps({"id": c.get("id"), "started": True}), flush=True)
        exc = None
        res = None
        try:
            f = resolve(m, c["path"])
            r = f(*[val(a) for a in c.get("args", [])], **{k: val(v) for k, v in c.get("kwargs", {}).items()})
            if c.get("consume"):
                r = list(r)
            if isinstance(r, (dimod.BinaryQuadraticModel, dimod.QuadraticModel)):
                res = {"model": obs_qm(r)}       # exercising the result: a corrupt structure shows here
            elif isinstance(r, dimod.DiscreteQuadraticModel):
                res = {"model": obs_dqm(r)}
            elif isinstance(r, np.ndarray):
                res = {"array": [fs(x) for x in np.asarray(r, dtype=object).ravel()[:16]]}
            else:
                res = {"repr": repr(r)[:120]}
                if isinstance(r, (int, float, np.floating, np.integer)) and not isinstance(r, bool):
                    res["num"] = fs(r)
        except BaseException as e:   # noqa
            if isinstance(e, (KeyboardInterrupt, SystemExit)):
                raise
            exc = type(e).__name__
            rec["msg"] = str(e)[:200]
            rec["mro"] = [k.__name__ for k in type(e).__mro__]
        if exc is None and c.get("readback"):
            # a valid call at the boundary: what was written must be readable back
            try:
                rb = c["readback"]
                rec["readback"] = fs(resolve(m, rb["path"])(*[val(a) for a in rb.get("args", [])]))
            except BaseException as e:   # noqa
                rec["readback"] = "raised " + type(e).__name__ + ": " + str(e)[:120]
        try:
            after = ob(m)
            rec["same"] = (after == before)
            if not rec["same"]:
                rec["before"] = before
                rec["after"] = after
        except BaseException as e:   # noqa
            rec["observe_error"] = repr(e)[:300]
        rec["exc"] = exc
        rec["res"] = res
        if c.get("want_before"):
            rec["before"] = before
        # release the model (and whatever the call returned) BEFORE reporting: heap damage done by the call
        # (e.g. a write in front of a vector's buffer) surfaces when the memory is freed, and must be blamed
        # on this call, not on the next one that happens to trigger the free
        m = f = r = before = after = None
        gc.collect()
        print(json.dumps(rec), flush=True)
    print(json.dumps({"done": True}), flush=True)


if __name__ == "__main__":
    main()
